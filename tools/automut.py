#!/usr/bin/env python3
"""Development aid (not a MANIFEST command): automatic mutation screening of the checks.

For every mutation site that bin/automut finds in the files below: make a scratch copy of /repo under /tmp with the
mutation applied; skip it when it does not build (with and without the verif tag) or when the repository's own suite
notices it; otherwise run the quick checks that watch that file (flatten files: the combined development pass CALL =
every oracle of C01..C10 but C07 on one run, then C09, then C07 for the files where an order is chosen) until one of them reports a violation that the
unchanged tree does not show. Results go to mutants/auto/results.jsonl (one line per mutant, resumable); the patch of
every mutant that nothing noticed is kept in mutants/auto/ for triage (equivalent mutant, or a gap in the workloads).

usage: automut.py [-j N] [-stride K] [-offset O] [-retest] [file ...]
"""
import json, os, re, subprocess, sys, shutil, threading, hashlib, queue, time
HERE = os.path.dirname(os.path.dirname(os.path.abspath(__file__)))
ENV = dict(os.environ, GOFLAGS="-mod=mod", GOPROXY="off", GOSUMDB="off", GOTOOLCHAIN="local")
FL = ["CALL", "C09"]           # files without any ordering logic
FLS = ["CALL", "C09", "C07"]   # files where an order is chosen (C07 is the slowest check: only there)
TARGETS = {
    "fixer.go": ["C19"],
    "mixin.go": ["C17", "C18"],
    "schema.go": ["C20", "CALL", "C09"],
    "internal/flatten/operations/operations.go": FLS,
    "internal/flatten/normalize/normalize.go": FL,
    "internal/flatten/schutils/flatten_schema.go": FL,
    "internal/flatten/sortref/keys.go": FL,
    "internal/flatten/sortref/sort_ref.go": FLS,
    "flatten_name.go": FL,
    "internal/flatten/replace/replace.go": FL,
    "flatten.go": FL,
    "flatten_options.go": FL,
    "analyzer.go": ["C11", "C12", "C13", "C14", "C15", "CALL", "C16", "C09"],
}
OUT = os.path.join(HERE, "mutants", "auto")
os.makedirs(OUT, exist_ok=True)
RES = os.path.join(OUT, "results.jsonl")
BASE = os.path.join(OUT, "baseline_signatures.json")
lock = threading.Lock()


def sh(cmd, cwd=None, timeout=None, env=ENV):
    try:
        p = subprocess.run(cmd, cwd=cwd, env=env, capture_output=True, text=True, timeout=timeout)
        return p.returncode, p.stdout + p.stderr
    except subprocess.TimeoutExpired as e:
        return 124, (e.stdout or b"").decode("utf8", "replace") if isinstance(e.stdout, bytes) else (e.stdout or "")


def run_check(prop, repo, workers):
    """returns (exit code, set of violation signatures, summary line)"""
    env = dict(ENV, VERIF_NO_EVIDENCE="1", VERIF_WORKERS=str(workers))
    if repo:
        env["VERIF_REPO"] = repo
    code, out = sh(["timeout", "-k", "10", "1500", os.path.join(HERE, "check"), prop, "quick"], cwd=HERE, env=env)
    sigs = set(re.findall(r'violation sig="([^"]+)"', out))
    summ = [l for l in out.splitlines() if l.startswith("[" + prop)]
    return code, sigs, (summ[-1][:200] if summ else out[-300:])


def baseline(props):
    base = json.load(open(BASE)) if os.path.exists(BASE) else {}
    for p in props:
        if p not in base:
            code, sigs, summ = run_check(p, None, 16)
            base[p] = sorted(sigs)
            print("baseline", p, code, sorted(sigs), summ, flush=True)
            json.dump(base, open(BASE, "w"), indent=1)
    return base


def one(file, site, base, workers):
    mid = "%s#%d" % (file, site["idx"])
    d = "/tmp/am-" + hashlib.md5(mid.encode()).hexdigest()[:10]
    rec = dict(id=mid, file=file, **{k: site[k] for k in ("idx", "line", "op", "desc", "func")})
    try:
        shutil.rmtree(d, ignore_errors=True)
        os.makedirs(d)
        repo = os.path.join(d, "repo")
        shutil.copytree("/repo", repo, ignore=shutil.ignore_patterns(".git"))
        code, src = sh([os.path.join(HERE, "bin", "automut"), "-file", os.path.join("/repo", file), "-apply", str(site["idx"])])
        if code != 0:
            rec["status"] = "mutator-error"; return rec
        open(os.path.join(repo, file), "w").write(src)
        c1, o1 = sh(["go", "build", "./..."], cwd=repo, timeout=300)
        c2, o2 = (sh(["go", "build", "-tags", "verif", "./..."], cwd=repo, timeout=300) if c1 == 0 else (1, ""))
        if c1 or c2:
            rec["status"] = "no-build"; return rec
        c0, ov = sh(["go", "vet", "./..."], cwd=repo, timeout=300)
        rec["vet_ok"] = c0 == 0
        code, out = sh(["timeout", "-k", "5", "300", os.path.join(HERE, "tools", "baseline_off.sh"), repo])
        rec["suite"] = "pass" if code == 0 else ("timeout" if code in (124, 137) else "fail")
        if code != 0:
            rec["status"] = "killed-by-suite"; return rec
        rec["killed_by"], rec["sigs"], rec["ran"] = [], [], []
        for p in TARGETS[file]:
            code, sigs, summ = run_check(p, repo, workers)
            new = sorted(sigs - set(base.get(p, [])))
            rec["ran"].append(dict(prop=p, exit=code, summary=summ))
            if new or (code == 1 and p != "CALL"):
                killers = sorted({s.split("|")[0] for s in new}) if p == "CALL" else [p]
                rec["killed_by"] = killers or [p]
                rec["sigs"] = new[:5]
                break
        rec["status"] = "killed" if rec["killed_by"] else "survived"
        if rec["status"] == "survived":
            _, diff = sh(["diff", "-u", os.path.join("/repo", file), os.path.join(repo, file)])
            diff = diff.replace("/repo/" + file, "a/" + file, 1).replace(os.path.join(repo, file), "b/" + file, 1)
            open(os.path.join(OUT, mid.replace("/", "_").replace("#", "-") + ".patch"), "w").write(diff)
        return rec
    finally:
        shutil.rmtree(d, ignore_errors=True)
        h = hashlib.md5((d + "/repo").encode()).hexdigest()[:8]
        for f in os.listdir(os.path.join(HERE, "bin")):
            if f.endswith("alt-" + h) or f == "alt-" + h or f.endswith("alt-" + h + ".log"):
                p = os.path.join(HERE, "bin", f)
                shutil.rmtree(p, ignore_errors=True) if os.path.isdir(p) else os.remove(p)


def main():
    args = sys.argv[1:]
    jobs, stride, offset, retest = 4, 1, 0, False
    while args and args[0].startswith("-"):
        if args[0] == "-retest": retest = True; args = args[1:]; continue
        if args[0] == "-j": jobs = int(args[1]); args = args[2:]
        elif args[0] == "-stride": stride = int(args[1]); args = args[2:]
        elif args[0] == "-offset": offset = int(args[1]); args = args[2:]
        else: sys.exit(__doc__)
    files = args or list(TARGETS)
    done = set()
    last = {}
    if os.path.exists(RES):
        for l in open(RES):
            try: r = json.loads(l); last[r["id"]] = r
            except Exception: pass
    done = set(last)
    if retest:
        # re-run the mutants that nothing noticed so far against the harness as it is now (the last record per id counts)
        done = {i for i, r in last.items() if r.get("status") != "survived"}
        stride = 1
    props = sorted({p for f in files for p in TARGETS[f]})
    base = baseline(props)
    q = queue.Queue()
    for f in files:
        code, out = sh([os.path.join(HERE, "bin", "automut"), "-file", os.path.join("/repo", f), "-list"])
        sites = [json.loads(l) for l in out.splitlines() if l.startswith("{")]
        for s in sites:
            mid = "%s#%d" % (f, s["idx"])
            if retest:
                # the file may have changed since (fix commits shift the indices): match on function, operator and text
                if any(r.get("status") == "survived" and r.get("file") == f and (r.get("func"), r.get("op"), r.get("desc")) == (s["func"], s["op"], s["desc"]) for r in last.values()):
                    q.put((f, s))
                continue
            if s["idx"] % stride == offset % stride and mid not in done:
                q.put((f, s))
    print("to do:", q.qsize(), flush=True)
    workers = max(2, 16 // jobs)

    def loop():
        while True:
            try: f, s = q.get_nowait()
            except queue.Empty: return
            t0 = time.time()
            try:
                rec = one(f, s, base, workers)
            except Exception as ex:
                rec = dict(id="%s#%d" % (f, s["idx"]), status="driver-error", error=str(ex))
            rec["wall_s"] = round(time.time() - t0, 1)
            with lock:
                open(RES, "a").write(json.dumps(rec) + "\n")
                print("%-60s %-16s %s  %s" % (rec["id"], rec.get("status"), ",".join(rec.get("killed_by", [])), rec.get("desc", "")[:70]), flush=True)
    ts = [threading.Thread(target=loop) for _ in range(jobs)]
    for t in ts: t.start()
    for t in ts: t.join()


if __name__ == "__main__":
    main()
