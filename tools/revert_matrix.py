#!/usr/bin/env python3
"""Development aid: re-introduces each repaired defect (reverse patch of one fix: commit applied to a scratch copy of
the current /repo) and runs the quick checks of the properties the defect was recorded under; writes mutants/reverts.json."""
import json, os, subprocess, re, sys, tempfile
HERE = os.path.dirname(os.path.dirname(os.path.abspath(__file__)))
known = json.load(open(os.path.join(HERE, "known_findings.json")))
by_commit = {}
for f in known["fixed"]:
    by_commit.setdefault(f["commit"], set()).add(f["property"])
    for m in re.findall(r"also (C\d\d(?:, C\d\d)*)", f["what"]):
        for p in m.split(", "):
            by_commit[f["commit"]].add(p)
res_path = os.path.join(HERE, "mutants", "reverts.json")
results = json.load(open(res_path)) if os.path.exists(res_path) else {}
only = set(sys.argv[1:])
for commit, props in sorted(by_commit.items()):
    if only and commit not in only: continue
    if not only and commit in results: continue
    patch = subprocess.check_output(["git", "-C", "/repo", "diff", commit, commit + "~1", "--", "."], text=True)
    pf = tempfile.NamedTemporaryFile("w", suffix=".patch", delete=False); pf.write(patch); pf.close()
    chk = subprocess.run(["git", "-C", "/repo", "apply", "--check", pf.name], capture_output=True, text=True)
    if chk.returncode != 0:
        results[commit] = {"applies": False, "note": "reverse patch does not apply on the current tree (later fixes touch the same lines)"}
        print(commit, "reverse patch does not apply"); os.unlink(pf.name); continue
    out = subprocess.run([os.path.join(HERE, "tools", "try_seed.sh"), pf.name, "quick"] + sorted(props), capture_output=True, text=True).stdout
    os.unlink(pf.name)
    det = {m.group(1): int(m.group(2)) for m in re.finditer(r"^== (C\d+) exit=(\d+)", out, re.M)}
    results[commit] = {"applies": True, "exit": det, "redetected_by": sorted(k for k, v in det.items() if v == 1),
                       "first_signatures": re.findall(r'violation sig="([^"]+)"', out)[:4]}
    json.dump(results, open(res_path, "w"), indent=1, sort_keys=True)
    print(commit, "re-detected by", results[commit]["redetected_by"] or "NOTHING", flush=True)
json.dump(results, open(res_path, "w"), indent=1, sort_keys=True)
