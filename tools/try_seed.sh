#!/bin/bash
# development aid (not a MANIFEST command): run checks against a scratch copy of /repo with a patch applied.
#   tools/try_seed.sh <patch.diff> <tier> <prop> [<prop> ...]
# The copy lives under /tmp and is removed afterwards. Prints one line per property: exit code and summary.
set -u
PATCH=$(readlink -f "$1"); TIER=$2; shift 2
HERE=$(cd "$(dirname "$0")/.." && pwd)
D=$(mktemp -d /tmp/seedrun.XXXXXX)
trap 'rm -rf "$D"; rm -rf "$HERE"/bin/alt-* "$HERE"/bin/*-alt-*' EXIT
cp -r /repo "$D/repo" && rm -rf "$D/repo/.git"
if ! (cd "$D/repo" && patch -p1 -s < "$PATCH"); then echo "PATCH DOES NOT APPLY"; exit 3; fi
for p in "$@"; do
  out=$(cd "$HERE" && VERIF_REPO="$D/repo" VERIF_NO_EVIDENCE=1 ./check "$p" "$TIER" 2>&1)
  code=$?
  echo "== $p exit=$code $(echo "$out" | grep -E '^\[C' | cut -c1-160)"
  echo "$out" | grep -E "violation sig|INCONCLUSIVE" | cut -c1-260 | head -6
done
