#!/bin/bash
# Runs the repository's own test suite with the verif build tag OFF and compares with the pinned baseline.
# usage: baseline_off.sh [repo_dir]
export GOFLAGS=-mod=mod GOPROXY=off GOSUMDB=off GOTOOLCHAIN=local
REPO=${1:-/repo}
HERE=$(cd "$(dirname "$0")" && pwd)
OUT=$(mktemp)
trap 'rm -f "$OUT"' EXIT
for m in . ./analysis_test; do
  (cd "$REPO/$m" && go test -mod=mod -json -vet=off -count=1 -timeout 25m ./... ) >>"$OUT" 2>/dev/null
done
python3 - "$OUT" "$HERE/baseline_expected.json" <<'PY'
import json,sys
res={}
for line in open(sys.argv[1]):
    try: e=json.loads(line)
    except Exception: continue
    if e.get("Test") and e.get("Action") in ("pass","fail","skip"):
        res[e["Package"]+"::"+e["Test"]]=e["Action"]
exp=json.load(open(sys.argv[2]))
bad=[t for t in exp["stable_pass"] if res.get(t)!="pass"]
newfail=[t for t,a in res.items() if a=="fail" and t not in exp["always_fail"] and t not in exp["stable_pass"]]
print("baseline: %d/%d stable tests pass; unexpected failures: %d"%(len(exp["stable_pass"])-len(bad),len(exp["stable_pass"]),len(newfail)))
for t in (bad+newfail)[:8]: print("  NOT PASSING:",t,res.get(t))
sys.exit(1 if bad or newfail else 0)
PY
