#!/usr/bin/env python3
"""Generates /verif/mutants/<id>.patch from mutants/catalogue.py against the current /repo HEAD, checks that each mutant builds
(with and without the verif tag) and whether the repository's own suite still passes; writes mutants/index.json."""
import json, os, subprocess, sys, shutil, tempfile
HERE = os.path.dirname(os.path.dirname(os.path.abspath(__file__)))
sys.path.insert(0, os.path.join(HERE, "mutants"))
import catalogue
ENV = dict(os.environ, GOFLAGS="-mod=mod", GOPROXY="off", GOSUMDB="off", GOTOOLCHAIN="local")
only = set(sys.argv[1:])
D = tempfile.mkdtemp(prefix="mutgen.", dir="/tmp")
W = os.path.join(D, "repo")
subprocess.check_call(["git", "-C", "/repo", "worktree", "add", "-q", "--detach", W, "HEAD"])
idx_path = os.path.join(HERE, "mutants", "index.json")
index = json.load(open(idx_path)) if os.path.exists(idx_path) else {}
try:
    for m in catalogue.M:
        if only and m["id"] not in only:
            continue
        if not only and m["id"] in index and "suite_passes" in index[m["id"]]:
            continue
        ok = True
        for f, old, new in [(m["file"], m["old"], m["new"])] + [tuple(e) for e in m["extra"]]:
            p = os.path.join(W, f)
            s = open(p).read()
            if s.count(old) != 1:
                print("!! %s: pattern occurs %d times in %s" % (m["id"], s.count(old), f)); ok = False; break
            open(p, "w").write(s.replace(old, new))
        rec = dict(expect=m["expect"], note=m["note"], file=m["file"])
        if ok:
            subprocess.call(["gofmt", "-w"] + sorted({m["file"]} | {e[0] for e in m["extra"]}), cwd=W)
            b1 = subprocess.run(["go", "build", "./..."], cwd=W, env=ENV, capture_output=True, text=True)
            b2 = subprocess.run(["go", "build", "-tags", "verif", "./..."], cwd=W, env=ENV, capture_output=True, text=True)
            rec["builds"] = b1.returncode == 0 and b2.returncode == 0
            if not rec["builds"]:
                print("!! %s does not build: %s" % (m["id"], (b1.stderr + b2.stderr)[:300]))
            else:
                patch = subprocess.check_output(["git", "-C", W, "diff"], text=True)
                open(os.path.join(HERE, "mutants", m["id"] + ".patch"), "w").write(patch)
                try:
                    t = subprocess.run(["timeout", "-k", "5", "240", os.path.join(HERE, "tools", "baseline_off.sh"), W], env=ENV, capture_output=True, text=True)
                    rec["suite_passes"] = t.returncode == 0
                    rec["suite_summary"] = t.stdout.strip().splitlines()[0] if t.stdout.strip() else ("timeout (suite hangs)" if t.returncode == 124 else "")
                except Exception as ex:
                    rec["suite_passes"] = False
                    rec["suite_summary"] = str(ex)
                subprocess.call(["pkill", "-f", "analysis.test"])
                print("%s builds, suite_passes=%s" % (m["id"], rec["suite_passes"]))
        else:
            rec["builds"] = False
        index[m["id"]] = dict(index.get(m["id"], {}), **rec)
        json.dump(index, open(idx_path, "w"), indent=1, sort_keys=True)
        subprocess.check_call(["git", "-C", W, "checkout", "-q", "--", "."])
finally:
    subprocess.call(["git", "-C", "/repo", "worktree", "remove", "--force", W])
    shutil.rmtree(D, ignore_errors=True)
json.dump(index, open(idx_path, "w"), indent=1, sort_keys=True)
