#!/usr/bin/env python3
import json, sys, glob, jsonschema
sch = json.load(open("/root/.vp/EVIDENCE.schema.json"))
bad = 0
for f in sorted(glob.glob("/verif/evidence/*.json")):
    try:
        e = json.load(open(f)); jsonschema.validate(e, sch)
        c = e["coverage"]
        print("%s ok tier=%s evals=%d distinct=%d viol=%s wall=%.1f" % (f, e["tier"], c["evaluations"], c["distinct_nontrivial"], e.get("violations"), e["wall_s"]))
    except Exception as ex:
        bad += 1; print(f, "INVALID:", str(ex)[:300])
sys.exit(1 if bad else 0)
