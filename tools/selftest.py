#!/usr/bin/env python3
"""Development aid (not a MANIFEST command): kill matrix of the mutant catalogue.
For every mutants/<id>.patch that builds, runs the quick checks of its expected killers on a scratch copy of /repo
(tools/try_seed.sh) and writes mutants/results.json: killed_by, survived."""
import json, os, subprocess, sys, re
HERE = os.path.dirname(os.path.dirname(os.path.abspath(__file__)))
index = json.load(open(os.path.join(HERE, "mutants", "index.json")))
res_path = os.path.join(HERE, "mutants", "results.json")
results = json.load(open(res_path)) if os.path.exists(res_path) else {}
only = set(sys.argv[1:])
for mid in sorted(index):
    rec = index[mid]
    if only and mid not in only: continue
    if not only and mid in results: continue
    if not rec.get("builds"): continue
    patch = os.path.join(HERE, "mutants", mid + ".patch")
    out = subprocess.run([os.path.join(HERE, "tools", "try_seed.sh"), patch, "quick"] + rec["expect"], capture_output=True, text=True).stdout
    det = {m.group(1): int(m.group(2)) for m in re.finditer(r"^== (C\d+) exit=(\d+)", out, re.M)}
    killed = sorted(k for k, v in det.items() if v == 1)
    results[mid] = {"expect": rec["expect"], "exit": det, "killed_by": killed, "suite_passes": rec.get("suite_passes"), "note": rec.get("note"),
                    "first_signatures": re.findall(r'violation sig="([^"]+)"', out)[:4]}
    json.dump(results, open(res_path, "w"), indent=1, sort_keys=True)
    print(mid, "killed by", killed or "NOTHING", "(suite passes: %s)" % rec.get("suite_passes"), flush=True)
