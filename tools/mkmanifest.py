#!/usr/bin/env python3
"""Writes /verif/MANIFEST.json from the table below and validates it against the schema."""
import json, os, sys
HERE = os.path.dirname(os.path.dirname(os.path.abspath(__file__)))

TRUST = "Go runtime and encoding/json; go-openapi/spec object model (Unmarshal/Marshal) as definition of 'loadable' and of the normal form; the harness's own walker/resolver/reference models (cross-checked by generator ground truth and the mutant catalogue). Decides only the executions actually produced."

# id: (engine, level, technique, text, design_ref)
CHECKS = {
 "C19": ("fixer", "exploration", "runtime monitor: reference-model oracle at the API boundary over systematic + seeded random documents, panic recovery",
         "Every call of FixEmptyResponseDescriptions on the generated and fixture documents is compared with an executable reference model on generic JSON, then repeated for idempotence; exhaustive over {described, undescribed, $ref} x {shared, default, coded} x 7 methods, sampled beyond.", "7/C19"),
}
CHECKS.update({
 "C17": ("mixin", "exploration", "runtime monitor: executable reference model of the merge rules compared with every observed Mixin call; exhaustive presence matrix + systematic overlaps + seeded random sets",
         "Each Mixin call (primary + 0..3 mixins, fresh objects) is compared with a reference model on generic JSON and the number of returned entries with the modelled collisions; exhaustive over 2^6x2^6 presence patterns, systematic over collision patterns per section, sampled beyond.", "7/C17"),
 "C18": ("mixin", "exploration", "runtime monitor: direct predicates on the operation ids observed before/after every Mixin call (uniqueness, renamed-only-if-collided, id-less stays id-less)",
         "Operation ids of every merged document are checked against the stated rules under the stated precondition (re-verified per case); collisions placed under each of the seven methods, primary-vs-mixin and mixin-vs-mixin, with 0..4 id-less operations, plus random sets.", "7/C18"),
 "C20": ("schema", "exploration", "runtime monitor: coherence predicates + $ref-transparency comparison + reference classifier on every observed Schema() result; recursion-depth hook budget (H3) and process-level fatal attribution for termination",
         "Every Schema() call over the systematic grammar (depth<=2, each also through one and two $refs, inside a root with self-containing arrays/maps and mutual recursion), random schemas and fixture positions is checked for flag coherence, $ref transparency and agreement with a reference classifier of the documented rules; non-termination is witnessed deterministically by a depth budget.", "7/C20"),
 "C11": ("analyzer", "exploration", "runtime monitor: independent section-aware walk of the serialized document compared (as multisets per kind) with the reference getters after every analysis.New",
         "Every $ref-bearing place named by the statement is planted systematically (7 containers x 11 keywords x depth 1..3, non-schema kinds, plain and hostile names), plus random documents and fixtures; completeness and soundness are checked per kind with multiplicity.", "7/C11"),
 "C12": ("analyzer", "exploration", "runtime monitor: bijection between walked schema positions and AllDefinitions(), each index pointer resolved against the serialized and the live document",
         "For every generated/fixture document each SchemaRef is resolved (own RFC 6901 resolver on the serialized document, and Ref.GetPointer() on the live one) and compared with the schema it claims to denote; TopLevel and allOf flags compared with the walk; names over the hostile alphabet.", "7/C12"),
 "C13": ("analyzer", "exploration", "runtime monitor: (pointer -> value) maps per owner category from an independent walk vs the ten pattern/enum getters",
         "Patterns and enums are planted at each owner kind and location (parameters at 3 levels, items depth 1..3, headers of shared/default/coded responses, schemas depth 0..3 in 7 containers) and compared per category and in the All view, plus random documents and fixtures.", "7/C13"),
 "C14": ("analyzer", "exploration", "runtime monitor: executable reference model of operation/media-type/security lookups compared with every getter answer; exhaustive decision tables",
         "All 128 method subsets, the 9+9 consumes/produces tables and the 25x2 security tables are enumerated; every lookup of the statement is compared with a reference model over generic JSON, plus random documents and fixtures.", "7/C14"),
 "C15": ("analyzer", "exploration", "runtime monitor: reference model of effective parameters + callback-protocol and panic/no-panic observation on every method x path x id query",
         "For each document every method x path (existing or not) and every id (known or not) is queried through the four variants; results compared as sets with a reference model, callback arguments and panics observed.", "7/C15"),
 "C16": ("race", "exploration", "Go race detector (-race build) over seeded concurrent getter workloads on a shared Spec + recorded-history check against sequential answers + before/after deep comparison of the document",
         "The real analyzer is driven by 2/4/16 goroutines (barrier-released, seeded random getter sequences, same-getter and first-use rounds on fresh analyzers, concurrent New) under the race detector; every recorded answer is compared with the sequential one; document immutability and map-copy safety are checked by serialization + reflect.DeepEqual against a twin. Evidence reports overlapping getter pairs actually observed.", "7/C16"),
 "C01": ("flatten", "exploration", "runtime monitor: bisimulation of the $ref-unfolded input bundle vs the output document after every successful Flatten (own resolver, coinductive schema-tree equality), hooks H2 for phase signatures",
         "Every successful Flatten over the systematic feature matrix of W and seeded random compositions, under every applicable option set, is judged by an independent bisimulation oracle over paths/operations/parameters/responses/headers/definitions.", "7/C01"),
 "C02": ("flatten", "exploration", "runtime monitor: independent walk of every output document checking the canonical form of each remaining $ref",
         "After every successful Minimal/full Flatten the output is walked: no $ref in parameters/responses/path items/simple items; every schema $ref decodes to ['definitions', existing name].", "7/C02"),
 "C03": ("flatten", "exploration", "runtime monitor: scan of every schema position of the fully flattened output with an independent statement of 'complex', plus case-folded name-set comparison and bisimulation of pre-existing definitions",
         "After every successful full Flatten no inline object-with-properties/allOf/tuple may remain outside definition bodies; created names never collide (case-insensitively); existing definitions keep their meaning.", "7/C03"),
 "C04": ("flatten", "exploration", "runtime monitor: returned error, recovered panics, loop/recursion budgets (hooks H1/H3) and process-level fatal/hang attribution on every Flatten of a W bundle",
         "Flatten must succeed on every generated W bundle under every applicable option set; failures are shrunk and attributed (error class, panic site, loop site).", "7/C04"),
 "C05": ("flatten", "exploration", "runtime monitor: walk of the expanded output + bisimulation + own $ref-graph cycle test on the input + byte comparison across repeats and key-order permutations",
         "After every successful Expand the remaining $refs must be canonical, meaning preserved; for inputs whose $ref graph is acyclic no $ref may remain and the bytes must be reproducible.", "7/C05"),
 "C06": ("flatten", "exploration", "runtime monitor: walk of the output after RemoveUnused (decoded targets vs decoded definition keys), bisimulation of operations, loop-iteration hook H1",
         "After every successful Flatten with RemoveUnused: shared sections empty, every definition used, nothing dangling, operations unchanged, removal loop within its logical budget; name classes needing pointer/URL escaping are boosted.", "7/C06"),
 "C07": ("flatten", "exploration", "runtime monitor: byte comparison of outputs across repeated fresh runs (map-iteration orders) x key-order permutations of the input files (map insertion histories)",
         "Each bundle/option set is flattened P x R times (quick 3x4 under three representative option sets, thorough 5x6 under all) from permuted JSON texts; any differing byte or success/failure flip is a violation; evidence counts cases where map orders demonstrably varied.", "7/C07"),
 "C08": ("flatten", "exploration", "runtime monitor: second Flatten of every output (reloaded from bytes, and on the same object with the same analyzer) compared byte for byte",
         "Idempotence is observed on every successful Minimal/full Flatten of the W workload in both re-entry variants.", "7/C08"),
 "C10": ("flatten", "exploration", "runtime monitor: every public getter of the Spec passed to Flatten compared with a fresh analysis of the output over the full argument domain; last mutating phase from hook H2",
         "After every successful Flatten the passed-in analyzer is queried exhaustively over its argument domain and compared with analysis.New(output); evidence lists which phase mutated last per case.", "7/C10"),
})
CHECKS["C09"] = ("failsafe", "fault_enumeration", "fault injection at the spec.PathLoader seam (every k-th document load of every multi-file run failed once) + crash/hang monitors (recover, hook budgets H1/H3, process-level fatal and CPU-time attribution) over hostile W+ inputs and structure-aware mutants",
         "For every multi-file bundle and option set the fault-free load sequence is recorded and each load index is failed once: Flatten must return an error. Flatten/New/Schema are run on 22 kinds of hostile W+ features, mutated bundles, W bundles and fixtures; panics, fatal errors and budget overruns are violations; planted unresolvable refs must yield an error.", "7/C09")
PENDING = {}

def main():
    props = [json.loads(l) for l in open(os.path.join(HERE, "properties.jsonl"))]
    checks, na = [], []
    for p in props:
        pid = p["id"]
        if pid in CHECKS:
            eng, level, tech, text, ref = CHECKS[pid]
            checks.append({
                "property_id": pid,
                "quick_cmd": "./check %s quick" % pid,
                "thorough_cmd": "./check %s thorough" % pid,
                "evidence_file": "/verif/evidence/%s.json" % pid,
                "replay_cmd_template": "./check %s --replay {path}" % pid,
                "engine": eng,
                "level_claimed": {"category": level, "text": text, "design_ref": "DESIGN.md §" + ref},
                "level_note": TRUST,
                "technique": tech,
            })
        else:
            na.append({"property_id": pid, "reason": PENDING.get(pid, "check not built yet in this round (design in DESIGN.md §7); not claimed until its engine is silent on the unchanged tree")})
    engines = {}
    for pid, (eng, *_r) in CHECKS.items():
        engines.setdefault(eng, []).append(pid)
    m = {
        "version": 1,
        "setup_cmd": "./check --setup",
        "hooks": {
            "guard": "verif",
            "enable": "go build -tags verif (the harness module replaces github.com/go-openapi/analysis with /repo)",
            "baseline_off_cmd": "/verif/tools/baseline_off.sh",
            "source_commits": json.load(open(os.path.join(HERE, "tools", "hook_commits.json"))),
            "add_only": True,
        },
        "engines": [{"name": e, "path": "harness/engines", "serves_properties": sorted(ps), "kind_free_text": "runtime monitor (Go, parent/worker processes)"} for e, ps in sorted(engines.items())],
        "checks": checks,
        "notes": "All checks are runtime monitors: the real code is executed on generated/hostile/fixture inputs while oracles and hooks observe. VERIF_SEED selects the random part of every case list. Exit 2 + INCONCLUSIVE means a harness-side problem, never a verdict.",
    }
    if na:
        m["not_applicable"] = na
    json.dump(m, open(os.path.join(HERE, "MANIFEST.json"), "w"), indent=1)
    try:
        import jsonschema
        jsonschema.validate(m, json.load(open("/root/.vp/MANIFEST.schema.json")))
        print("MANIFEST.json valid:", len(checks), "checks,", len(na), "not claimed")
    except ImportError:
        print("MANIFEST.json written (jsonschema not available)")

main()
