#!/usr/bin/env python3
"""Development aid: runs every seeded change (seeded/<name>/patch.diff) against the quick checks listed for it,
on a scratch copy of /repo, and writes seeded/<name>/meta.json and seeded/results.json."""
import json, os, subprocess, sys, re
HERE = os.path.dirname(os.path.dirname(os.path.abspath(__file__)))
SEEDS = {
 # name: (property it was asked to break, checks to try, what it needs in order to manifest)
 "s1-C01": ("C01", ["C01", "C06", "C02"], "RemoveUnused + a root definition that is a pure $ref alias to a remote definition colliding by name with a root definition + another referrer; the reload after stripOAIGen was moved"),
 "s1-C02": ("C02", ["C02"], "a $ref-free, non-complex imported definition colliding by name, referred to from >= 2 places, the topmost one nested in a definition"),
 "s1-C03": ("C03", ["C03", "C08"], "full flatten + colliding complex import whose single referrer is nested inside a definition"),
 "s1-C05": ("C05", ["C05", "C02"], "the demonstration uses a colliding import that contains $refs (outside W for Expand); inside W the same slip shows in Minimal/full mode only"),
 "s1-C06": ("C06", ["C06"], "RemoveUnused + chain of unused definitions whose head name needs pointer escaping ('/', '~')"),
 "s1-C07": ("C07", ["C07", "C04"], "three-way name collision where the second import itself contains a $ref to another colliding import (outside W: colliding imports must be $ref-free) + a particular map order"),
 "s1-C08": ("C08", ["C08", "C03"], "full flatten + colliding complex import referred to from inside a definition"),
 "s1-C09": ("C09", ["C09"], "shared response/parameter of the root that is itself a $ref to a missing document, no operation using any non-schema $ref"),
 "s1-C10": ("C10", ["C10"], "colliding import re-inlined into a top-level alias definition, RemoveUnused off"),
 "s1-C16": ("C16", ["C16"], "security requirement with null scopes; first lookup writes into the document"),
 "s2-C01b": ("C01", ["C01"], "two imported definitions whose names contain no letter or digit ('{}', '[]'): both mangle to the empty name"),
 "s2-C02b": ("C02", ["C02", "C06", "C01"], "RemoveUnused + an unused definition whose name is a proper prefix of a used one that is the only referrer of a chain"),
 "s2-C04": ("C04", ["C04", "C07"], "same mechanism as s1-C07 (colliding imports containing $refs: outside W) + map order"),
 "s2-C06b": ("C06", ["C06"], "RemoveUnused + unused chain headed by a name with '/' or '~'"),
 "s2-C07b": ("C07", ["C07"], "two pre-existing definitions differing by case only, each with an inline object at the same property path, full flatten"),
 "s2-C11": ("C11", ["C11", "C12", "C02"], "a schema with additionalItems but no items keyword"),
 "s2-C12": ("C12", ["C12"], "names containing the literal sequences '~0' / '~1' and no '/'"),
 "s2-C13": ("C13", ["C13"], "simple-schema items nested two or more levels carrying a pattern/enum"),
 "s2-C14": ("C14", ["C14"], "every operation overrides consumes/produces, or the document has no operation"),
 "s2-C15": ("C15", ["C15", "C16"], "a sequence of ParamsFor queries on one analyzer for several operations of the same path (result cache polluted)"),
 "s2-C17": ("C17", ["C17"], "primary without extensions at that level + mixin extension keys with upper-case letters"),
 "s2-C18": ("C18", ["C18"], "primary without any paths section + the same id in two different mixins"),
 "s2-C19": ("C19", ["C19"], "document without paths + shared responses lacking a description"),
 "s2-C20": ("C20", ["C20"], "a $ref to an object with a discriminator (IsBaseType lost through the $ref)"),
 "s3-C03c": ("C03", ["C03", "C20"], "tuples with additionalItems classified as arrays (two cooperating edits in schema.go): stay inline after full flatten"),
 "s3-C05c": ("C05", ["C05"], "Expand + remote self-recursive definition referring twice to a $ref-free remote definition whose name collides with a root definition"),
 "s3-C08c": ("C08", ["C08", "C02"], "a pointer whose simple target (array/map) itself holds a pointer, each with a single caller: pointers nested in pointer targets are W+ (outside W)"),
 "s3-C09c": ("C09", ["C09"], "the k-th load fails while importing a remote definition whose name also exists in the root: the error is swallowed by a fallback to the root document (Minimal/full only)"),
 "s3-C10c": ("C10", ["C10"], "any anonymous pointer that goes through flattenAnonPointer: Flatten re-assigns its own copy of opts.Spec"),
 "s3-C11c": ("C11", ["C11"], "a path item that has both a $ref and sibling operations/parameters holding $refs"),
 "s3-C13c": ("C13", ["C13", "C12"], "property names containing '/' or '~' (escaped twice) with a pattern/enum at or below them"),
 "s3-C14c": ("C14", ["C14"], "a requirement combining several schemes one of which already appeared in an earlier alternative"),
 "s3-C15c": ("C15", ["C15"], "a parameter carrying an x-go-name extension overlapping another one by (in, name), or clashing by derived name"),
 "s3-C16c": ("C16", ["C16"], "pure data race: parameter $ref resolution memoised in a map shared by all readers of one Spec"),
 "s3-C17c": ("C17", ["C17"], "a mixin security requirement that is a strict superset of one already merged (or an empty requirement in the primary)"),
 "s3-C20c": ("C20", ["C20", "C03"], "object with properties/allOf and the boolean additionalProperties: true"),
 "s4-C01d": ("C01", ["C01"], "root without a definitions section + two $ref-free imported definitions with the same name (nil map hoisted out of the import loop)"),
 "s4-C02d": ("C02", ["C02", "C11"], "a $ref held by additionalItems of a schema whose items is absent or a single schema"),
 "s4-C03d": ("C03", ["C03"], "a response under a status code without registered reason phrase (299, 420, 599): its schemas are skipped by the depth-first ordering"),
 "s4-C04d": ("C04", ["C04"], "an anonymous pointer into a definition whose name is URL-escaped in $ref strings (space, braces, non-ASCII), named by namePointers (key no longer unescaped in getParentFromKey)"),
 "s4-C06d": ("C06", ["C06"], "RemoveUnused run before pointers are resolved: a definition used only through an anonymous pointer into it survives"),
 "s4-C07d": ("C07", ["C07"], "path-level body parameter with an inline complex schema on a path with >= 2 operations: candidate names iterated in map order"),
 "s4-C08d": ("C08", ["C08", "C02"], "full flatten + non-complex colliding import with >= 2 referrers: the pointer created by stripOAIGen is no more named in full mode"),
 "s4-C09d": ("C09", ["C09", "C20"], "two containers closing two different cycles through each other (multi-typed, or anyOf side branch): the cycle guard of Schema() remembers the last $ref only"),
 "s4-C10d": ("C10", ["C10"], "no definition created during the run + an anonymous pointer expanded in place or replaced by a top-level $ref, RemoveUnused off: conditional reload skipped"),
 "s4-C12d": ("C12", ["C12"], "TopLevel computed from a suffix test: schema-level definitions, a response/parameter named 'definitions'"),
 "s4-C18d": ("C18", ["C18"], "an id carried by a skipped (colliding) path of an earlier mixin and by a fresh path of a later one"),
 "s4-C19d": ("C19", ["C19"], "operation whose responses hold only an undescribed default response"),
 "s5-C01e": ("C01", ["C01"], "'../x.json' inside an imported schema rebased to the wrong directory; silent only when a same-named document with a same-named definition exists there"),
 "s5-C02e": ("C02", ["C02"], "case-insensitive collision where name mangling changes the case + the same remote definition met again in a later import pass (cache records the name before uniquification)"),
 "s5-C05e": ("C05", ["C05"], "Expand + cycle through an auxiliary document whose file name equals the root's (normalizeRef matches by base name)"),
 "s5-C06e": ("C06", ["C06", "C01"], "definitions used only from a path-level body parameter (treated as a dropped shared parameter)"),
 "s5-C10e": ("C10", ["C10"], "RemoveUnused + an unused definition whose name is a prefix of a used one (incremental index update instead of reload)"),
 "s5-C11e": ("C11", ["C11", "C13"], "simple-schema items nested with a $ref at two depths of the same chain (same key for every level)"),
 "s5-C13e": ("C13", ["C13"], "a default-response header carrying both a pattern and an enum"),
 "s5-C14e": ("C14", ["C14"], "an anonymous requirement {} in an operation's effective security"),
 "s5-C15e": ("C15", ["C15"], "a parameter $ref to a whole document (no fragment)"),
 "s5-C16e": ("C16", ["C16"], "pure data race: operation-id index built lazily by the first OperationForName on a fresh analyzer"),
 "s5-C17e": ("C17", ["C17"], "a tag name absent from the primary occurring in two mixins (or twice in one)"),
 "s5-C20e": ("C20", ["C20"], "additionalProperties: false (closed empty object no more a known type)"),
 "s6-C01f": ("C01", ["C01", "C02"], "two referenced definitions of one auxiliary file whose names are equal up to a '#' ('Pet#v1' / 'Pet#v2'): normalize.Path drops what follows the second '#', both refs fall into one import group"),
 "s6-C03f": ("C03", ["C03", "C20"], "an inline allOf composition that also carries additionalProperties and no own properties: classified as a map, left inline by full flatten"),
 "s6-C04f": ("C04", ["C04", "C01"], "two-hop import whose second hop goes up a directory ('../common/owner.json' inside an imported schema): leading '..' dropped by cleaning the rooted relative part"),
 "s6-C06f": ("C06", ["C06", "C08"], "RemoveUnused + an unused definition that is a bare $ref alias heading a chain of otherwise unused definitions (removal loop stops early)"),
 "s6-C07f": ("C07", ["C07"], "a colliding $ref-free import with two referrers of equal depth that are same-index members of same-kind arrays in different schemas (cat.allOf[0], dog.allOf[0]): tie in TopmostFirst"),
 "s6-C08f": ("C08", ["C08", "C06"], "RemoveUnused + an unused bare alias of a definition nobody else uses: first pass leaves the chain, second pass removes it"),
 "s6-C09f": ("C09", ["C09"], "an anonymous pointer to the responses object of an operation ('#/paths/~1things/get/responses') used by two schemas: index out of range in IsStatusCodeResponse"),
 "s6-C12f": ("C12", ["C12", "C11"], "a schema-level 'definitions' keyword with two or more entries: range variable shared (go 1.20 semantics), every SchemaRef of the map points to the last one"),
 "s6-C18f": ("C18", ["C18"], "a path item carrying both a $ref and inline operations whose ids collide: skipped by pathItemOps"),
 "s6-C19f": ("C19", ["C19"], "responses that are $refs to other files by relative path or file:// URL (HasURLPathOnly): get a description next to the $ref"),
 "s7-C02g": ("C02", ["C02", "C01"], "a colliding ($ref-free, case-insensitively) import referred to from a direct sub-schema of a root definition that is itself the target of an anonymous pointer, and no other pointer to an inline schema: reload after namePointers skipped, stripOAIGen misses a referrer"),
 "s7-C05g": ("C05", ["C05", "C06", "C01"], "Expand + RemoveUnused + an unused definition whose name is a proper prefix of a remaining remote recursive definition that is the only holder of a $ref to a third definition"),
 "s7-C10g": ("C10", ["C10"], "RemoveUnused + a shared parameter (or shared-response header) of type array whose items carry a pattern: reset() forgets one index, stale entry survives only when that index shrinks"),
 "s7-C11g": ("C11", ["C11", "C12"], "sibling names 'a/b' and literal 'a~1b' (or names with '~' and no '/'): keys escaped only when the name contains '/'"),
 "s7-C13g": ("C13", ["C13"], "a shared response with headers (patterns/enums) and no schema: guard clause skips the header loop"),
 "s7-C14g": ("C14", ["C14"], "two operation ids equal up to letter case ('listItems' / 'ListItems'), or a lookup of an undeclared id differing by case only"),
 "s7-C15g": ("C15", ["C15"], "a parameter $ref resolving to a non-parameter + a Safe variant whose callback inspects its spec.Parameter argument (zeroed by a failed type assertion)"),
 "s7-C16g": ("C16", ["C16"], "a consumes/produces list containing the same media type twice: in-place compaction writes into the document (and races on first concurrent calls)"),
 "s7-C17g": ("C17", ["C17"], "a value listed twice inside one mixin's consumes list and not yet known to the primary"),
 "s7-C20g": ("C20", ["C20", "C03"], "multi-typed schemas mentioning 'null' ([object, null] with properties, through $ref chains, as array items)"),
 "s8-C01h": ("C01", ["C01", "C12"], "one schema holding two or more patternProperties with different complex inline content, full mode (shared loop variable: the new definition is cloned from a sibling)"),
 "s8-C03h": ("C03", ["C03"], "a definition named like an ignored key ('schema', 'not', 'anyOf', 'oneOf') with a complex inline schema directly under its 'not' keyword: empty generated name, schema silently skipped"),
 "s8-C04h": ("C04", ["C04", "C01"], "full mode, three naming steps in one pass: an inline complex schema named first, then one that contains an anonymous pointer $ref, then the pointer's target (stale cached ref index)"),
 "s8-C06h": ("C06", ["C06", "C11"], "a schema with a $ref AND a sibling keyword that itself holds a $ref to a definition with no other referrer (siblings of $ref no longer indexed)"),
 "s8-C07h": ("C07", ["C07", "C02"], "two nested collisions: a generated name colliding with an existing definition (aP) whose inline object refers to a colliding $ref-free import (x): outcome depends on which OAIGen entry stripOAIGen visits first"),
 "s8-C08h": ("C08", ["C08", "C06"], "RemoveUnused + an anonymous pointer to the schema of a shared parameter sitting in an unused shared response: shared section kept by the first pass, dropped by the second"),
 "s8-C09h": ("C09", ["C09"], "a pointer chain with a tail leading into a cycle it is not part of (p -> x -> y -> x): DeepestRef compares with the start only; order-dependent (about 2 runs in 5)"),
 "s8-C12h": ("C12", ["C12", "C11"], "a schema with $ref plus sibling sub-schema keywords (properties, allOf, additionalProperties): nested schemas dropped from AllDefinitions / SchemasWithAllOf"),
 "s8-C13h": ("C13", ["C13"], "an inline status-code response with two or more headers carrying patterns/enums: hoisted key prefix re-assigned inside the loop"),
 "s8-C18h": ("C18", ["C18"], "primary path item with an id-less operation under an earlier method and an id under a later method, the same id in a mixin ('break' for 'continue' in getOpIDs)"),
 "s9-C02i": ("C02", ["C02", "C03"], "a colliding $ref-free import with >= 2 referrers, the first of which is the schema of a response under a status code net/http has no text for (420): the pointer created by stripOAIGen cannot be named"),
 "s9-C05i": ("C05", ["C05", "C01"], "Expand + a recursive definition in an auxiliary document OUTSIDE the root's directory subtree (file:/// circular ref) holding a relative file ref with a fragment to a third document: fragment dropped by the URL branch of RebaseRef"),
 "s9-C10i": ("C10", ["C10"], "AllRefs() queried BEFORE Flatten + a flattened document that holds no $ref at all (Expand on an acyclic bundle, or only parameter/response refs): memo invalidated only by addRef"),
 "s9-C11i": ("C11", ["C11", "C13"], "an operation without any 'responses' key whose parameters hold $refs / patterns"),
 "s9-C14i": ("C14", ["C14", "C15"], "OperationFor(method, path) where the method exists only on another path: reports found with a nil operation"),
 "s9-C15i": ("C15", ["C15"], "a bad parameter $ref pointing INSIDE an existing shared parameter (#/parameters/ids/items, .../schema): resolved to the enclosing parameter"),
 "s9-C16i": ("C16", ["C16"], "path-level parameters with spare slice capacity (3, 5..8 entries) + operation-level parameters + two operations of that path queried concurrently: append writes into the document's backing array"),
 "s9-C17i": ("C17", ["C17"], "primary with a paths object holding no path item but an x- extension: replaced wholesale by initPrimary"),
 "s9-C19i": ("C19", ["C19"], "a path item carrying a $ref next to its own operations, whose responses lack a description"),
 "s9-C20i": ("C20", ["C20"], "a discriminator on an otherwise simple schema (object with only a discriminator, map with a discriminator), also behind $ref and as items"),
}
only = set(sys.argv[1:])
res_path = os.path.join(HERE, "seeded", "results.json")
results = json.load(open(res_path)) if os.path.exists(res_path) else {}
for name, (prop, checks, needs) in SEEDS.items():
    if only and name not in only:
        continue
    d = os.path.join(HERE, "seeded", name)
    out = subprocess.run([os.path.join(HERE, "tools", "try_seed.sh"), os.path.join(d, "patch.diff"), "quick"] + checks, capture_output=True, text=True).stdout
    det = {}
    for m in re.finditer(r"^== (C\d+) exit=(\d+)", out, re.M):
        det[m.group(1)] = int(m.group(2))
    sigs = re.findall(r'violation sig="([^"]+)"', out)
    caught = sorted(k for k, v in det.items() if v == 1)
    meta = {"breaks_property": prop, "needs_to_manifest": needs,
            "confirmed": "tools/confirm_seed.sh (scratch worktree of /repo HEAD): builds with and without -tags verif; repository suite unchanged (tools/baseline_off.sh); demo_test.go TestSeededDemo fails with patch.diff and passes without",
            "ran": "tools/try_seed.sh patch.diff quick " + " ".join(checks),
            "quick_check_exit_codes": det, "caught_by": caught, "first_signatures": sigs[:6]}
    json.dump(meta, open(os.path.join(d, "meta.json"), "w"), indent=1)
    results[name] = {"property": prop, "caught_by": caught, "exit": det}
    print(name, prop, "caught by", caught or "NOTHING", flush=True)
json.dump(results, open(res_path, "w"), indent=1, sort_keys=True)
