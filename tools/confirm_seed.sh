#!/bin/bash
# development aid: confirm a seeded change in a scratch worktree of /repo (outside /repo and /verif), then file it under /verif/seeded/<name>/
#   tools/confirm_seed.sh <name> <property> <patch> <demo_test.go> [race]
set -u
NAME=$1; PROP=$2; PATCH=$(readlink -f $3); DEMO=$(readlink -f $4); RACE=${5:-}
export GOFLAGS=-mod=mod GOPROXY=off GOSUMDB=off GOTOOLCHAIN=local
HERE=$(cd "$(dirname "$0")/.." && pwd)
W=$(mktemp -d /tmp/confirm.XXXXXX)/repo
git -C /repo worktree add -q --detach "$W" HEAD || exit 2
cleanup() { git -C /repo worktree remove --force "$W"; rm -rf "$(dirname "$W")"; }
trap cleanup EXIT
cd "$W"
git apply "$PATCH" || { echo "RESULT $NAME: patch does not apply"; exit 1; }
go build ./... && go build -tags verif ./... || { echo "RESULT $NAME: does not build"; exit 1; }
"$HERE/tools/baseline_off.sh" "$W" | head -3; suite=${PIPESTATUS[0]}
cp "$DEMO" "$W/zz_demo_test.go"
RF=""; [ -n "$RACE" ] && RF="-race"
go test $RF -vet=off -count=1 -run 'TestSeededDemo' . >/tmp/confirm.with.log 2>&1; with=$?
git checkout -q -- . ; 
go test $RF -vet=off -count=1 -run 'TestSeededDemo' . >/tmp/confirm.without.log 2>&1; without=$?
echo "RESULT $NAME: suite_with_change_exit=$suite demo_with_change_exit=$with demo_without_change_exit=$without"
if [ $suite -eq 0 ] && [ $with -ne 0 ] && [ $without -eq 0 ]; then
  mkdir -p "$HERE/seeded/$NAME"
  cp "$PATCH" "$HERE/seeded/$NAME/patch.diff"; cp "$DEMO" "$HERE/seeded/$NAME/demo_test.go"
  echo "CONFIRMED $NAME"
else
  tail -5 /tmp/confirm.with.log /tmp/confirm.without.log
fi
