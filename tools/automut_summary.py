#!/usr/bin/env python3
"""Development aid: summary of mutants/auto/results.jsonl (the last record per mutation counts; a mutation is identified by
file, function, operator and text, so that a re-test after the file changed supersedes the first result)."""
import json, os, collections, sys
HERE = os.path.dirname(os.path.dirname(os.path.abspath(__file__)))
last = {}
for l in open(os.path.join(HERE, "mutants", "auto", "results.jsonl")):
    try:
        r = json.loads(l)
    except Exception:
        continue
    if "file" not in r:
        continue
    last[(r["file"], r.get("func"), r.get("op"), r.get("desc"))] = r
per = collections.defaultdict(collections.Counter)
for (f, _, _, _), r in last.items():
    per[f][r.get("status")] += 1
tot = collections.Counter()
print("%-48s %8s %8s %8s %8s %8s" % ("file", "no-build", "by-suite", "killed", "survived", "total"))
for f in sorted(per):
    c = per[f]
    tot.update(c)
    print("%-48s %8d %8d %8d %8d %8d" % (f, c["no-build"], c["killed-by-suite"], c["killed"], c["survived"], sum(c.values())))
print("%-48s %8d %8d %8d %8d %8d" % ("all", tot["no-build"], tot["killed-by-suite"], tot["killed"], tot["survived"], sum(tot.values())))
passing = tot["killed"] + tot["survived"]
print("mutants that build and pass the repository's own suite: %d; noticed by the checks: %d (%.0f%%)" % (passing, tot["killed"], 100.0 * tot["killed"] / max(1, passing)))
kb = collections.Counter()
for r in last.values():
    for k in r.get("killed_by", []):
        kb[k] += 1
print("first check to notice:", dict(sorted(kb.items())))
if "-v" in sys.argv:
    for (f, fn, op, desc), r in sorted(last.items()):
        if r.get("status") == "survived":
            print("SURVIVED %s:%s %s | %s" % (f, r.get("line"), fn, desc))
