// vcheck: parent/worker binary of the runtime-monitoring harness.
package main

import (
	"encoding/json"
	"flag"
	"fmt"
	"io"
	"log"
	"os"
	"strconv"
	"strings"

	"verif/harness/engines"
	"verif/harness/runner"
)

func main() {
	if len(os.Args) < 2 {
		fmt.Println("usage: vcheck run|worker|replay ...")
		os.Exit(2)
	}
	switch os.Args[1] {
	case "worker":
		fs := flag.NewFlagSet("worker", flag.ExitOnError)
		var a runner.WorkerArgs
		fs.StringVar(&a.Prop, "prop", "", "")
		fs.StringVar(&a.Tier, "tier", "quick", "")
		fs.Uint64Var(&a.Seed, "seed", 1, "")
		fs.IntVar(&a.Start, "start", 0, "")
		fs.IntVar(&a.Stride, "stride", 1, "")
		fs.IntVar(&a.N, "n", 0, "")
		fs.IntVar(&a.Only, "only", -1, "")
		fs.StringVar(&a.CaseFile, "case", "", "")
		fs.StringVar(&a.Out, "out", "", "")
		fs.StringVar(&a.Progress, "progress", "", "")
		fs.IntVar(&a.CPULimit, "cpu", 60, "")
		fs.Parse(os.Args[2:])
		os.Exit(runner.Worker(a))
	case "run", "replay":
		fs := flag.NewFlagSet("run", flag.ExitOnError)
		var a runner.RunArgs
		fs.StringVar(&a.Prop, "prop", "", "")
		fs.StringVar(&a.Tier, "tier", "quick", "")
		fs.StringVar(&a.VerifDir, "verif", "/verif", "")
		fs.IntVar(&a.Workers, "workers", 16, "")
		fs.StringVar(&a.Replay, "replay", "", "")
		seed := uint64(1)
		if s := os.Getenv("VERIF_SEED"); s != "" {
			if v, err := strconv.ParseUint(s, 10, 64); err == nil {
				seed = v
			}
		}
		fs.Uint64Var(&a.Seed, "seed", seed, "")
		fs.Parse(os.Args[2:])
		os.Exit(runner.Run(a))
	case "shrink":
		fs := flag.NewFlagSet("shrink", flag.ExitOnError)
		prop := fs.String("prop", "", "")
		tier := fs.String("tier", "quick", "")
		dir := fs.String("replay", "", "")
		fs.Parse(os.Args[2:])
		log.SetOutput(io.Discard)
		os.Exit(runner.ShrinkReplay(*prop, *tier, *dir))
	case "flatten":
		log.SetOutput(io.Discard)
		engines.DebugFlatten(os.Args[2], os.Args[3])
	case "gen": // development aid: print the case with the given index (or the first whose name contains -name)
		fs := flag.NewFlagSet("gen", flag.ExitOnError)
		prop := fs.String("prop", "", "")
		tier := fs.String("tier", "quick", "")
		idx := fs.Int("idx", -1, "")
		name := fs.String("name", "", "")
		seed := fs.Uint64("seed", 1, "")
		fs.Parse(os.Args[2:])
		eng, _ := runner.EngineFor(*prop)
		n := eng.NumCases(*prop, *tier, *seed)
		for i := 0; i < n; i++ {
			if *idx >= 0 && i != *idx {
				continue
			}
			c := eng.Gen(*prop, *tier, *seed, i)
			if *name != "" && !strings.Contains(c.Name, *name) {
				continue
			}
			b, _ := json.MarshalIndent(c, "", " ")
			fmt.Println(string(b))
			break
		}
	case "props":
		for _, p := range runner.Props() {
			fmt.Println(p)
		}
	default:
		fmt.Println("unknown command", os.Args[1])
		os.Exit(2)
	}
}
