// automut is a development aid (not a MANIFEST command): a small source-level mutation generator for Go files.
//
//	automut -file f.go -list        one JSON line per mutation site: {"idx":..,"line":..,"op":..,"desc":..,"func":..}
//	automut -file f.go -apply N     prints the source with mutation N applied
//
// The sites are enumerated in a fixed order (position in the file, then operator), so an index designates the
// same mutation as long as the file does not change. Statements that only log or feed the verification hooks
// are left alone (mutating them cannot change behaviour).
package main

import (
	"bytes"
	"encoding/json"
	"flag"
	"fmt"
	"go/ast"
	"go/format"
	"go/parser"
	"go/token"
	"os"
	"strings"
)

type site struct {
	Idx  int    `json:"idx"`
	Line int    `json:"line"`
	Op   string `json:"op"`
	Desc string `json:"desc"`
	Func string `json:"func"`
	do   func()
}

var skipFuncs = map[string]bool{"croak": true, "String": true, "debugLog": true, "GetLogger": true}

func isInertCall(e ast.Expr) bool {
	c, ok := e.(*ast.CallExpr)
	if !ok {
		return false
	}
	switch f := c.Fun.(type) {
	case *ast.Ident:
		return f.Name == "debugLog" || f.Name == "panic"
	case *ast.SelectorExpr:
		if x, ok := f.X.(*ast.Ident); ok {
			if x.Name == "verifhook" || x.Name == "log" {
				return true
			}
			if x.Name == "debug" {
				return true
			}
		}
	}
	return false
}

func isMessageCall(c *ast.CallExpr) bool {
	switch f := c.Fun.(type) {
	case *ast.Ident:
		return f.Name == "debugLog" || f.Name == "panic" || strings.HasPrefix(f.Name, "Err")
	case *ast.SelectorExpr:
		if x, ok := f.X.(*ast.Ident); ok {
			switch x.Name {
			case "fmt", "log", "errors", "verifhook", "debug":
				return true
			}
		}
	}
	return false
}

func src(fset *token.FileSet, n ast.Node) string {
	var b bytes.Buffer
	_ = format.Node(&b, fset, n)
	s := strings.Join(strings.Fields(b.String()), " ")
	if len(s) > 90 {
		s = s[:90] + "…"
	}
	return s
}

func main() {
	file := flag.String("file", "", "")
	list := flag.Bool("list", false, "")
	apply := flag.Int("apply", -1, "")
	flag.Parse()
	fset := token.NewFileSet()
	f, err := parser.ParseFile(fset, *file, nil, parser.ParseComments)
	if err != nil {
		fmt.Fprintln(os.Stderr, err)
		os.Exit(2)
	}
	var sites []*site
	fn := ""
	add := func(n ast.Node, op, desc string, do func()) {
		sites = append(sites, &site{Line: fset.Position(n.Pos()).Line, Op: op, Desc: desc, Func: fn, do: do})
	}
	swap := map[token.Token]token.Token{token.LAND: token.LOR, token.LOR: token.LAND, token.EQL: token.NEQ, token.NEQ: token.EQL,
		token.LSS: token.LEQ, token.LEQ: token.LSS, token.GTR: token.GEQ, token.GEQ: token.GTR, token.ADD: token.SUB, token.SUB: token.ADD}

	var stmts func(list *[]ast.Stmt, inIf bool)
	var visit func(n ast.Node)
	inMsg := 0
	stmts = func(list *[]ast.Stmt, inIf bool) {
		for i := range *list {
			i := i
			st := (*list)[i]
			del := func(op string) {
				add(st, op, "delete: "+src(fset, st), func() { (*list)[i] = &ast.EmptyStmt{Semicolon: st.Pos(), Implicit: false} })
			}
			switch t := st.(type) {
			case *ast.ExprStmt:
				if !isInertCall(t.X) {
					del("del-call")
				}
			case *ast.AssignStmt:
				if t.Tok != token.DEFINE {
					del("del-assign")
				}
			case *ast.IncDecStmt:
				del("del-incdec")
			case *ast.BranchStmt:
				if t.Tok == token.CONTINUE || t.Tok == token.BREAK {
					del("del-branch")
				}
			case *ast.ReturnStmt:
				if inIf && i == len(*list)-1 {
					del("del-return")
				}
			}
			visit(st)
		}
	}
	visit = func(n ast.Node) {
		switch t := n.(type) {
		case nil:
			return
		case *ast.FuncDecl:
			if skipFuncs[t.Name.Name] || t.Body == nil {
				return
			}
			fn = t.Name.Name
			stmts(&t.Body.List, false)
			return
		case *ast.BlockStmt:
			stmts(&t.List, false)
			return
		case *ast.IfStmt:
			if t.Init != nil {
				visit(t.Init)
			}
			c := t.Cond
			if b, isCmp := c.(*ast.BinaryExpr); !isCmp || (b.Op != token.EQL && b.Op != token.NEQ) { // else the operator swap below says the same
				add(t, "neg-if", "negate: if "+src(fset, c), func() { t.Cond = &ast.UnaryExpr{Op: token.NOT, X: &ast.ParenExpr{X: c}} })
			}
			visit(t.Cond)
			stmts(&t.Body.List, true)
			if t.Else != nil {
				visit(t.Else)
			}
			return
		case *ast.CaseClause:
			if len(t.Body) > 0 {
				body := t.Body
				_ = body
				add(t, "empty-case", "empty the body of: case "+src(fset, &ast.CompositeLit{Elts: t.List}), func() { t.Body = nil })
			}
			for _, e := range t.List {
				visit(e)
			}
			stmts(&t.Body, false)
			return
		case *ast.BinaryExpr:
			if to, ok := swap[t.Op]; ok && inMsg == 0 {
				from := t.Op
				add(t, "binop", fmt.Sprintf("%s -> %s in: %s", from, to, src(fset, t)), func() { t.Op = to })
			}
		case *ast.CallExpr:
			if isMessageCall(t) {
				inMsg++
				for _, a := range t.Args {
					visit(a)
				}
				inMsg--
				return
			}
		case *ast.BasicLit:
			if inMsg > 0 {
				return
			}
			switch t.Kind {
			case token.INT:
				old := t.Value
				nv := "1"
				if old == "1" {
					nv = "0"
				} else if old != "0" {
					nv = old + " + 1"
				}
				add(t, "int-lit", old+" -> "+nv, func() { t.Value = nv })
			case token.STRING:
				if len(t.Value) > 2 {
					old := t.Value
					add(t, "str-lit", old+` -> ""`, func() { t.Value = `""` })
				}
			}
			return
		case *ast.Ident:
			if inMsg == 0 && (t.Name == "true" || t.Name == "false") {
				old := t.Name
				nv := "true"
				if old == "true" {
					nv = "false"
				}
				add(t, "bool-lit", old+" -> "+nv, func() { t.Name = nv })
			}
			return
		case *ast.GenDecl:
			if t.Tok == token.IMPORT {
				return
			}
		}
		// generic descent, keeping statement lists under our control
		ast.Inspect(n, func(c ast.Node) bool {
			if c == n || c == nil {
				return true
			}
			visit(c)
			return false
		})
	}
	for _, d := range f.Decls {
		visit(d)
	}
	for i, s := range sites {
		s.Idx = i
	}
	switch {
	case *list:
		enc := json.NewEncoder(os.Stdout)
		for _, s := range sites {
			_ = enc.Encode(s)
		}
	case *apply >= 0 && *apply < len(sites):
		sites[*apply].do()
		var b bytes.Buffer
		if err := format.Node(&b, fset, f); err != nil {
			fmt.Fprintln(os.Stderr, err)
			os.Exit(2)
		}
		out, err := format.Source(b.Bytes())
		if err != nil {
			out = b.Bytes()
		}
		os.Stdout.Write(out)
	default:
		fmt.Fprintln(os.Stderr, "nothing to do")
		os.Exit(2)
	}
}
