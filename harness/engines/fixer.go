// Package engines wires generators, library calls and oracles into the per-property checks.
package engines

import (
	"fmt"
	"strconv"

	"github.com/go-openapi/analysis"

	"verif/harness/gen"
	"verif/harness/jx"
	"verif/harness/lib"
	"verif/harness/oracle"
	"verif/harness/runner"
)

func init() { runner.Register("fixer", fixerEngine{}, "C19") }

type fixerEngine struct{}

var respStates = []string{"desc", "nodesc", "ref"}

func fixerSysCount() int { return 7*27 + 7 + 8 }

func (fixerEngine) counts(tier string) (sys, rnd, fix int) {
	sys = fixerSysCount()
	fix = len(lib.Fixtures())
	rnd = 1500
	if tier == "thorough" {
		rnd = 60000
	}
	return
}

func (e fixerEngine) NumCases(prop, tier string, seed uint64) int {
	s, r, f := e.counts(tier)
	return s + r + f
}

func mkResp(state string, n int) jx.Obj {
	switch state {
	case "desc":
		return jx.Obj{"description": "d" + strconv.Itoa(n), "schema": jx.Obj{"type": "string"}}
	case "nodesc":
		return jx.Obj{"schema": jx.Obj{"type": "integer"}, "headers": jx.Obj{"X-A": jx.Obj{"type": "string"}}}
	}
	return jx.Obj{"$ref": "#/responses/shared"}
}

func (e fixerEngine) Gen(prop, tier string, seed uint64, idx int) *runner.Case {
	sys, rnd, _ := e.counts(tier)
	c := &runner.Case{Engine: "fixer", Files: map[string]string{}, Root: "doc.json"}
	var doc jx.Obj
	switch {
	case idx < 7*27:
		m := oracle.Methods[idx/27]
		k := idx % 27
		sh, df, cd := respStates[k/9], respStates[(k/3)%3], respStates[k%3]
		c.Name = fmt.Sprintf("sys/%s/shared=%s/default=%s/code=%s", m, sh, df, cd)
		shared := mkResp(sh, 1)
		if sh == "ref" {
			shared = jx.Obj{"$ref": "#/responses/other"}
		}
		doc = jx.Obj{"swagger": "2.0", "info": jx.Obj{"title": "t", "version": "1"},
			"responses": jx.Obj{"shared": shared, "other": jx.Obj{"description": "o"}},
			"paths":     jx.Obj{"/p": jx.Obj{m: jx.Obj{"responses": jx.Obj{"default": mkResp(df, 2), "200": mkResp(cd, 3), "404": mkResp("nodesc", 4)}}}}}
	case idx < 7*27+7:
		m := oracle.Methods[idx-7*27]
		c.Name = "sys/" + m + "/no-responses-object"
		doc = jx.Obj{"swagger": "2.0", "info": jx.Obj{"title": "t", "version": "1"},
			"paths": jx.Obj{"/p": jx.Obj{m: jx.Obj{"operationId": "x"}}, "/q": jx.Obj{"get": jx.Obj{"responses": jx.Obj{"200": mkResp("nodesc", 1)}}}}}
	case idx < sys:
		k := idx - 7*27 - 7
		c.Name = "sys/edge/" + strconv.Itoa(k)
		base := jx.Obj{"swagger": "2.0", "info": jx.Obj{"title": "t", "version": "1"}}
		switch k {
		case 0: // no paths
			base["responses"] = jx.Obj{"r": mkResp("nodesc", 1)}
		case 1: // no shared responses
			base["paths"] = jx.Obj{"/p": jx.Obj{"get": jx.Obj{"responses": jx.Obj{"200": mkResp("nodesc", 1)}}}}
		case 2: // empty responses object
			base["paths"] = jx.Obj{"/p": jx.Obj{"get": jx.Obj{"responses": jx.Obj{}}}}
		case 3: // only default
			base["paths"] = jx.Obj{"/p": jx.Obj{"post": jx.Obj{"responses": jx.Obj{"default": mkResp("nodesc", 1)}}}}
		case 4: // empty paths, path item without operations
			base["paths"] = jx.Obj{"/p": jx.Obj{}}
		case 5: // nothing at all
		case 6: // a path item carrying a $ref next to its own operations
			base["paths"] = jx.Obj{"/withRef": jx.Obj{"$ref": "#/x-shared/item", "get": jx.Obj{"responses": jx.Obj{"200": mkResp("nodesc", 1), "default": mkResp("nodesc", 2)}}, "patch": jx.Obj{"responses": jx.Obj{"204": mkResp("nodesc", 3)}}},
				"/plain": jx.Obj{"get": jx.Obj{"responses": jx.Obj{"200": mkResp("nodesc", 4)}}}}
		case 7: // descriptions made of white space are not empty
			base["paths"] = jx.Obj{"/p": jx.Obj{"get": jx.Obj{"responses": jx.Obj{"200": jx.Obj{"description": " "}, "404": mkResp("nodesc", 1)}}}}
		}
		doc = base
	case idx < sys+rnd:
		rng := gen.NewRng(seed, idx)
		c.Name = "rnd/" + strconv.Itoa(idx)
		doc = gen.Doc(rng, gen.DocCfg{Hostile: gen.Chance(rng, 50), Depth: 1, EmptyDescr: true, OpNoResp: true, NoPaths: gen.Chance(rng, 8)})
	default:
		f := lib.Fixtures()[idx-sys-rnd]
		c.Name = "fixture/" + f
		b := lib.ReadFixtureJSON(f)
		if b == nil {
			c.Extra = map[string]any{"skip": "not a loadable swagger document"}
			return c
		}
		c.Files["doc.json"] = string(b)
		return c
	}
	c.Files["doc.json"] = string(jx.Canon(doc))
	return c
}

func (fixerEngine) Info(prop, tier string) runner.Info {
	var cells []string
	for _, k := range []string{"shared", "default", "code"} {
		for _, s := range respStates {
			if k == "shared" {
				cells = append(cells, k+"/"+s)
				continue
			}
			for _, m := range oracle.Methods {
				cells = append(cells, k+"/"+s+"/"+m)
			}
		}
	}
	cells = append(cells, "op-without-responses", "doc-without-paths", "doc-without-shared-responses")
	return runner.Info{
		Level: "exploration",
		Rule: "systematic: {described, undescribed, $ref} x {shared, default, status-code} x 7 methods, operations without responses, documents without paths/shared responses; " +
			"random G-doc documents (seeded) and the repository fixtures. Oracle: reference model on generic JSON (put '(empty)' into exactly the non-$ref responses lacking a description), " +
			"compared with the serialized document after the call; second call must change nothing. non-trivial = at least one description was filled; distinct = SHA-256 of the input document.",
		Assumptions: []string{"spec.Swagger Unmarshal/Marshal is the definition of loadable and of the normal form", "encoding/json", "walker of harness/oracle"},
		AllCells:    cells,
	}
}

func (fixerEngine) Check(prop, tier string, c *runner.Case) *runner.Result {
	res := &runner.Result{}
	if s, ok := c.Extra["skip"].(string); ok {
		res.Skipped = s
		return res
	}
	text := []byte(c.Files["doc.json"])
	before, err := lib.NormalForm(text)
	if err != nil {
		res.Skipped = "not loadable: " + err.Error()
		return res
	}
	// reference model
	expect := jx.Clone(before).(jx.Obj)
	w := oracle.WalkDoc(expect)
	filled := 0
	for _, r := range w.Resps {
		state := "desc"
		if ref, _ := r.Node["$ref"].(string); ref != "" {
			state = "ref"
		} else if d, _ := r.Node["description"].(string); d == "" {
			state = "nodesc"
			r.Node["description"] = "(empty)"
			filled++
		}
		if r.Kind == "shared" {
			res.Cell("shared/" + state)
		} else {
			res.Cell(r.Kind + "/" + state + "/" + r.Ptr[2])
		}
	}
	for _, op := range w.Ops {
		if _, ok := op.Node["responses"]; !ok {
			res.Cell("op-without-responses")
		}
	}
	if before["paths"] == nil {
		res.Cell("doc-without-paths")
	}
	if _, ok := before["responses"]; !ok {
		res.Cell("doc-without-shared-responses")
	}
	res.Ev("responses_seen", len(w.Resps))
	res.Ev("descriptions_expected_filled", filled)

	sw := lib.MustLoad(text)
	nodes := jx.CountNodes(before)
	_, pi := runner.Call(nodes, nil, func() { analysis.FixEmptyResponseDescriptions(sw) })
	res.Evals++
	if pi != nil {
		res.Violate("panic", "panic:"+pi.Site()+":"+runner.MsgClass(pi.Msg), "", "FixEmptyResponseDescriptions panicked: "+pi.Msg+"\n"+pi.Stack)
		return res
	}
	after, b1, err := lib.Dump(sw)
	if err != nil {
		res.Violate("unserializable", "unserializable", "", err.Error())
		return res
	}
	if d, diff := jx.Diff(expect, after); diff {
		kind := "other-change"
		// classify: an expected fill that did not happen, or a change elsewhere
		wa := oracle.WalkDoc(after)
		for _, r := range wa.Resps {
			if ref, _ := r.Node["$ref"].(string); ref == "" {
				if dsc, _ := r.Node["description"].(string); dsc == "" {
					kind = "empty-description-left:" + r.Kind
				}
			}
		}
		res.Violate(kind, kind, "", "document after the call differs from the model at "+d)
	}
	_, pi = runner.Call(nodes, nil, func() { analysis.FixEmptyResponseDescriptions(sw) })
	res.Evals++
	if pi != nil {
		res.Violate("panic", "panic-second-call:"+pi.Site(), "", pi.Msg)
		return res
	}
	_, b2, _ := lib.Dump(sw)
	if string(b1) != string(b2) {
		res.Violate("not-idempotent", "not-idempotent", "", "second call changed the document")
	}
	res.Nontrivial = filled > 0
	return res
}
