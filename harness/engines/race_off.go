//go:build !race

package engines

const raceEnabled = false
