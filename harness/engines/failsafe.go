package engines

import (
	"fmt"
	"os"
	"path"
	"path/filepath"
	"strconv"
	"strings"

	"github.com/go-openapi/analysis"
	"github.com/go-openapi/spec"

	"verif/harness/gen"
	"verif/harness/jx"
	"verif/harness/lib"
	"verif/harness/oracle"
	"verif/harness/runner"
)

func init() { runner.Register("failsafe", failsafeEngine{}, "C09") }

type failsafeEngine struct{}

func (failsafeEngine) counts(tier string) (plusSys, plusRnd, mut, fault, wcrash, fix int) {
	plusSys = len(gen.PlusKinds) * 4
	plusRnd, mut, fault, wcrash = 500, 700, 160, 250
	fix = len(lib.Fixtures())
	if tier == "thorough" {
		plusRnd, mut, fault, wcrash = 12000, 20000, 2500, gen.SysBundleCount()
	}
	return
}

func (e failsafeEngine) NumCases(prop, tier string, seed uint64) int {
	a, b, c, d, w, f := e.counts(tier)
	return a + b + c + d + w + f
}

func (e failsafeEngine) Gen(prop, tier string, seed uint64, idx int) *runner.Case {
	ps, pr, mu, fa, wc, _ := e.counts(tier)
	c := &runner.Case{Engine: "failsafe", Root: "root.json", Extra: map[string]any{}}
	rng := gen.NewRng(seed, idx)
	switch {
	case idx < ps:
		kind := gen.PlusKinds[idx/4]
		b := gen.NewBundle(gen.NewRng(777, idx))
		b.Variant = idx % 4
		b.Plus(kind)
		b.Variant = -1
		if idx%4 >= 2 { // with some ordinary material around
			b.Plant(gen.Pick(rng, gen.BundleHolders), gen.Pick(rng, gen.BundleContainers), gen.Pick(rng, gen.BundleTargets), 1)
		}
		c.Name = fmt.Sprintf("plus/sys/%s/%d", kind, idx%4)
		c.Files, c.Tags = b.Files(nfObj), b.TagList()
		c.Opts = gen.AllOptSets(len(b.Aux) == 0)
		if gen.MustErrorKinds[kind] && idx%4 < 2 {
			c.Extra["must_error"] = kind
		}
		c.Extra["mode"] = "crash"
	case idx < ps+pr:
		b := gen.RndPlusBundle(rng)
		c.Name = "plus/rnd/" + strconv.Itoa(idx)
		c.Files, c.Tags = b.Files(nfObj), b.TagList()
		c.Opts = gen.AllOptSets(len(b.Aux) == 0)
		c.Extra["mode"] = "crash"
	case idx < ps+pr+mu:
		var b *gen.Bundle
		if gen.Chance(rng, 50) {
			b, _ = gen.SysBundle(rng.IntN(gen.SysBundleCount()))
		} else {
			b = gen.RndBundle(rng, 6)
		}
		c.Files = b.Files(nfObj)
		n := 1 + rng.IntN(3)
		var ops []string
		for i := 0; i < n; i++ {
			ops = append(ops, gen.Mutate(rng, c.Files, "root.json"))
		}
		c.Name = fmt.Sprintf("mutate/%d/%s", idx, strings.Join(ops, "+"))
		for _, o := range ops {
			c.Tags = append(c.Tags, "mutation:"+o, "cell:mutation/"+o)
		}
		c.Opts = gen.AllOptSets(len(c.Files) == 1)
		c.Extra["mode"] = "crash"
	case idx < ps+pr+mu+fa:
		// load-fault enumeration over multi-file W bundles
		var b *gen.Bundle
		for try := 0; ; try++ {
			r2 := gen.NewRng(seed+uint64(try)*7919, idx)
			if try%2 == 0 {
				b, _ = gen.SysBundle(r2.IntN(gen.SysBundleCount()))
			} else {
				b = gen.RndBundle(r2, 6)
			}
			if idx%3 == 0 {
				b.Plus(gen.Pick(r2, gen.ResolvablePlusKinds))
			}
			if len(b.Aux) > 0 {
				break
			}
		}
		c.Name = "fault/" + strconv.Itoa(idx)
		c.Files, c.Tags, c.Opts = b.Files(nfObj), b.TagList(), b.Opts()
		if idx%3 == 0 {
			c.Opts = gen.AllOptSets(false)
		}
		c.Extra["mode"] = "fault"
	case idx < ps+pr+mu+fa+wc:
		// plain W bundles: New and Schema on every position, Flatten under every applicable option set
		k := idx - (ps + pr + mu + fa)
		var b *gen.Bundle
		if tier == "thorough" {
			b, _ = gen.SysBundle(k)
		} else {
			b, _ = gen.SysBundle((k*37 + int(seed)) % gen.SysBundleCount())
		}
		c.Name = "w/" + strconv.Itoa(k)
		c.Files, c.Tags, c.Opts = b.Files(nfObj), b.TagList(), b.Opts()
		c.Extra["mode"] = "crash"
	default:
		f := lib.Fixtures()[idx-(ps+pr+mu+fa+wc)]
		c.Name = "fixture/" + f
		b := lib.ReadFixtureJSON(f)
		if b == nil {
			c.Extra["skip"] = "not a loadable swagger document"
			return c
		}
		if len(b) > 60<<10 || strings.Contains(f, "azure") {
			// the CPU-time watchdog is calibrated for small bundles; large real-world specs are covered by the repository's own tests
			c.Extra["skip"] = "fixture larger than 60 KB or part of the azure set (documents referring to each other, minutes of CPU per case)"
			return c
		}
		c.Files = map[string]string{"root.json": string(b)}
		c.Extra["mode"] = "crash"
		c.Extra["disk_base"] = f
		c.Opts = []string{"min", "full+ru", "expand"}
	}
	return c
}

func (failsafeEngine) Info(prop, tier string) runner.Info {
	cells := []string{}
	for _, k := range gen.PlusKinds {
		cells = append(cells, "cell:plus/"+k)
	}
	for _, k := range gen.MutationOps {
		cells = append(cells, "cell:mutation/"+k)
	}
	return runner.Info{Level: "fault_enumeration", MaxEventKeys: []string{"max_loop_iterations", "max_schema_depth", "max_loads_in_a_run"}, AllCells: cells,
		Rule: "four workloads. (1) W+: each of 22 hostile feature kinds (anonymous pointers into operations / nested inline schemas / missing positions, pointers inside pointer targets, cyclic pointer chains, back-references from auxiliary documents, colliding imports containing $refs, dangling local/remote refs, " +
			"containers recursive only through items/additionalProperties, whole-document schemas, $refs to non-schemas, $ref siblings, absolute self refs, simple-items $refs, deep nesting ...) systematically and in seeded random compositions with W features; (2) structure-aware mutation of W bundles " +
			"(retarget a $ref to a random pointer of a random file, delete a target, swap object/array, truncate or replace an auxiliary file, drop a key, non-URI $ref strings); (3) W bundles and repository fixtures; all run through Flatten under every option set, analysis.New, and Schema() on every schema position, " +
			"under recover(), hook budgets H1/H3 and process-level fatal/hang attribution. (4) fault enumeration: for every multi-file W bundle and applicable option set, the fault-free run's n document loads are counted through the spec.PathLoader seam and the run is repeated failing exactly the k-th load, for every k in 1..n, once with an I/O error and once delivering a truncated document; Flatten must then return an error. " +
			"Planted unresolvable refs (missing remote file/fragment, missing local pointer, cyclic pointer chain) reachable from an operation must yield an error. non-trivial = a W+/mutated case in which Flatten returned an error or a fault case with n >= 1; distinct = SHA-256 of the bundle.",
		Assumptions: []string{"spec.PathLoader is the only way the library reaches other documents (in-memory loader with the default loader's path strategy)", "transient fault model: only the k-th load of a run fails",
			"hooks H1/H3 give logical budgets; elsewhere the CPU-time watchdog and fatal-error attribution of the runner decide", "spec object model defines 'loadable'"},
	}
}

// diskLoader serves fixture bundles from the repository's fixtures directory.
func withDisk(files map[string]string, dir string) map[string]string {
	out := map[string]string{}
	for k, v := range files {
		out[k] = v
	}
	_ = filepath.Walk(dir, func(p string, fi os.FileInfo, err error) error {
		if err != nil || fi.IsDir() || fi.Size() > 1<<20 {
			return nil
		}
		if b, err := os.ReadFile(p); err == nil {
			if _, ok := out[p]; !ok {
				out[p] = string(b)
			}
		}
		return nil
	})
	return out
}

func (e failsafeEngine) Check(prop, tier string, c *runner.Case) *runner.Result {
	res := &runner.Result{}
	if s, ok := c.Extra["skip"].(string); ok {
		res.Skipped = s
		return res
	}
	for _, t := range c.Tags {
		if strings.HasPrefix(t, "cell:plus/") || strings.HasPrefix(t, "cell:mutation/") {
			res.Cell(t)
		}
	}
	files := absFiles(c)
	root := path.Join(vroot, c.Root)
	if rel, ok := c.Extra["disk_base"].(string); ok {
		abs := filepath.Join(lib.RepoDir(), rel)
		files = withDisk(map[string]string{abs: c.Files["root.json"]}, filepath.Dir(abs))
		root = abs
	}
	if _, err := lib.Load([]byte(files[root])); err != nil {
		res.Skipped = "root not loadable by the spec model"
		return res
	}
	nodes := 0
	for _, t := range files {
		nodes += len(t) / 8
	}
	if nodes < 200 {
		nodes = 200
	}
	crash := func(what string, run *flatRun, o string) bool {
		if run.Panic == nil {
			return false
		}
		if run.Panic.Budget != nil {
			res.Violate("non-termination", "non-termination:"+what+":"+run.Panic.Site(), o, run.Panic.Msg)
		} else if specTypedNil(run.Panic) {
			res.Violate("panic", "panic:"+what+":spec-typed-nil", o, what+" panicked inside go-openapi/spec: "+run.Panic.Msg+"\n"+run.Panic.Stack)
		} else {
			res.Violate("panic", "panic:"+what+":"+run.Panic.Site()+":"+runner.MsgClass(run.Panic.Msg), o, what+" panicked: "+run.Panic.Msg+"\n"+run.Panic.Stack)
		}
		return true
	}
	track := func(run *flatRun) {
		for _, n := range run.Stats.Loops {
			res.EvMax("max_loop_iterations", n)
		}
		res.EvMax("max_schema_depth", run.Stats.MaxDepth)
		res.EvMax("max_loads_in_a_run", len(run.Loads))
	}

	if c.Extra["mode"] == "fault" {
		for _, o := range c.Opts {
			os_ := parseOpt(o)
			base := runFlatten(files, root, os_, 0, nodes)
			res.Evals++
			track(base)
			if !base.OK() {
				res.Ev("fault_base_failed", 1)
				continue
			}
			n := len(base.Loads)
			res.Ev("fault_free_runs", 1)
			res.Ev("loads_counted", n)
			for k := 1; k <= n; k++ {
				for _, garbage := range []bool{false, true} {
					run := runFlattenFault(files, root, os_, k, garbage, nodes)
					res.Evals++
					kind := "io-error"
					if garbage {
						kind = "truncated-document"
					}
					res.Ev("faults_injected:"+kind, 1)
					if crash("Flatten", run, o) {
						continue
					}
					switch {
					case !run.Faulted:
						res.Ev("fault_not_reached", 1)
					case run.Err != nil:
						res.Ev("faults_reported_as_error", 1)
					case string(run.Bytes) == string(base.Bytes):
						res.Ev("masked_fault", 1)
						res.Set("masked_faults", fmt.Sprintf("%s k=%d/%d %s %s", o, k, n, base.Loads[k-1], kind))
					default:
						res.Violate("load-fault-swallowed", "load-fault-swallowed:"+kind+":"+modeOf(os_), o, fmt.Sprintf("load %d of %d (%s) failed (%s) but Flatten returned nil with a different document", k, n, base.Loads[k-1], kind))
					}
				}
			}
			if n > 0 {
				res.Nontrivial = true
			}
		}
		return res
	}

	mustErr, _ := c.Extra["must_error"].(string)
	for _, o := range c.Opts {
		os_ := parseOpt(o)
		run := runFlatten(files, root, os_, 0, nodes)
		res.Evals++
		res.Ev("flatten_calls", 1)
		track(run)
		if crash("Flatten", run, o) {
			continue
		}
		if run.Err != nil {
			res.Ev("flatten_errors", 1)
			res.Set("error_classes", runner.MsgClass(run.Err.Error()))
			res.Nontrivial = true
		} else {
			res.Ev("flatten_ok", 1)
			if mustErr != "" {
				res.Violate("unresolvable-ref-accepted", "unresolvable-ref-accepted:"+mustErr+":"+modeOf(os_), o, "the bundle contains an unresolvable $ref ("+mustErr+") reachable from an operation, but Flatten reported success")
			}
		}
	}
	// New and Schema on every schema position, the document being the root
	sw, err := lib.Load([]byte(files[root]))
	if err == nil {
		var sp *analysis.Spec
		_, pi := runner.Call(nodes, nil, func() { sp = analysis.New(sw) })
		res.Evals++
		if pi != nil {
			res.Violate("panic", "panic:New:"+pi.Site()+":"+runner.MsgClass(pi.Msg), "", "analysis.New panicked: "+pi.Msg+"\n"+pi.Stack)
		} else {
			ld := &memLoader{files: files}
			curLoader = ld
			n := 0
			for _, sr := range sp.AllDefinitions() {
				if n >= 300 {
					break
				}
				n++
				sch := sr.Schema
				var serr error
				st, pi := runner.Call(nodes, nil, func() { _, serr = analysis.Schema(analysis.SchemaOpts{Schema: sch, Root: sw, BasePath: root}) })
				res.Evals++
				res.EvMax("max_schema_depth", st.MaxDepth)
				if pi != nil {
					if pi.Budget != nil {
						res.Violate("non-termination", "non-termination:Schema:"+pi.Site(), "", "Schema() at "+sr.Ref.String()+": "+pi.Msg)
					} else if specTypedNil(pi) {
						res.Violate("panic", "panic:Schema:spec-typed-nil", "", "Schema() at "+sr.Ref.String()+" panicked inside go-openapi/spec: "+pi.Msg+"\n"+pi.Stack)
					} else {
						res.Violate("panic", "panic:Schema:"+pi.Site()+":"+runner.MsgClass(pi.Msg), "", "Schema() at "+sr.Ref.String()+" panicked: "+pi.Msg+"\n"+pi.Stack)
					}
					break
				}
				if serr != nil {
					res.Ev("schema_errors", 1)
				}
			}
			curLoader = nil
			res.Ev("schema_calls", n)
		}
	}
	_ = oracle.Methods
	_ = jx.Obj{}
	_ = spec.Swagger{}
	return res
}

// specTypedNil recognises the one known way the dependency go-openapi/spec v0.21.0 panics: its resolver marshals a
// nil pointer wrapped in an interface ("value method ...MarshalJSON called using nil *T pointer"), the panicking
// frame being in go-openapi/spec itself, whatever function of go-openapi/analysis called the resolver.
func specTypedNil(pi *runner.PanicInfo) bool {
	if !strings.Contains(pi.Msg, "value method github.com/go-openapi/spec.") || !strings.Contains(pi.Msg, "called using nil *") {
		return false
	}
	for _, ln := range strings.Split(pi.Stack, "\n") {
		if strings.HasPrefix(ln, "github.com/go-openapi/") {
			return strings.HasPrefix(ln, "github.com/go-openapi/spec.")
		}
	}
	return false
}
