package engines

import (
	"fmt"
	"sort"
	"strings"

	"github.com/go-openapi/analysis"
	"github.com/go-openapi/spec"

	"verif/harness/jx"
	"verif/harness/lib"
	"verif/harness/oracle"
	"verif/harness/runner"
)

// Domain is the argument domain of the public getters for one document.
type Domain struct {
	Paths   []string // every path of the document plus one absent path
	IDs     []string // every non-empty operation id plus one unknown id
	Methods []string // the seven methods in lower case, plus upper/mixed spellings
}

func DomainOf(doc jx.Obj) Domain {
	d := Domain{Methods: append(append([]string{}, oracle.Methods...), "GET", "Post", "OPTIONS", "trace")}
	paths := jx.AsObj(doc["paths"])
	for _, p := range jx.Keys(paths) {
		if strings.HasPrefix(p, "/") {
			d.Paths = append(d.Paths, p)
		}
	}
	d.Paths = append(d.Paths, "/__absent__")
	seen := map[string]bool{}
	for _, id := range oracle.OpIDs(doc) {
		if id != "" && !seen[id] {
			seen[id] = true
			d.IDs = append(d.IDs, id)
		}
	}
	sort.Strings(d.IDs)
	// undeclared spellings of declared ids (another letter case): lookups must not find them
	for _, id := range append([]string{}, d.IDs...) {
		for _, v := range []string{strings.ToUpper(id), strings.ToLower(id)} {
			if !seen[v] {
				seen[v] = true
				d.IDs = append(d.IDs, v)
			}
		}
	}
	d.IDs = append(d.IDs, "__unknown__")
	return d
}

func sortedStrs(in []string) []string {
	out := append([]string{}, in...)
	sort.Strings(out)
	return out
}

func canonSchemaRefs(in []analysis.SchemaRef) []any {
	out := make([]string, 0, len(in))
	for _, r := range in {
		out = append(out, jx.CanonS(jx.Obj{"name": r.Name, "ref": r.Ref.String(), "top": r.TopLevel, "schema": lib.ToGeneric(r.Schema)}))
	}
	sort.Strings(out)
	res := make([]any, len(out))
	for i, s := range out {
		res[i] = s
	}
	return res
}

func canonSecReqs(in [][]analysis.SecurityRequirement) any {
	out := jx.Arr{}
	for _, alt := range in {
		var l []string
		for _, r := range alt {
			sc := r.Scopes
			if sc == nil {
				sc = []string{}
			}
			l = append(l, jx.CanonS(jx.Obj{"name": r.Name, "scopes": lib.ToGeneric(sc)}))
		}
		sort.Strings(l)
		out = append(out, strings.Join(l, ","))
	}
	return out
}

func canonParams(m map[string]spec.Parameter) any {
	var l []string
	for _, p := range m {
		l = append(l, jx.CanonS(lib.ToGeneric(p)))
	}
	sort.Strings(l)
	return l
}

func canonParamList(ps []spec.Parameter) any {
	var l []string
	for _, p := range ps {
		l = append(l, jx.CanonS(lib.ToGeneric(p)))
	}
	sort.Strings(l)
	return l
}

// guarded evaluates f and renders a panic as an answer (the plain Params variants may legitimately panic).
func guarded(f func() any) (out any) {
	defer func() {
		if r := recover(); r != nil {
			out = "panic:" + runner.MsgClass(fmt.Sprint(r))
		}
	}()
	return f()
}

// Getter is one query with its arguments bound.
type Getter struct {
	Name string
	Call func(sp *analysis.Spec) any
}

// GetterList enumerates all public query methods of analysis.Spec over the domain.
func GetterList(d Domain) []Getter {
	var gs []Getter
	add := func(n string, f func(sp *analysis.Spec) any) { gs = append(gs, Getter{n, f}) }
	add("AllPaths", func(sp *analysis.Spec) any { return lib.ToGeneric(sp.AllPaths()) })
	add("Operations", func(sp *analysis.Spec) any { return lib.ToGeneric(sp.Operations()) })
	add("OperationIDs", func(sp *analysis.Spec) any { return sortedStrs(sp.OperationIDs()) })
	add("OperationMethodPaths", func(sp *analysis.Spec) any { return sortedStrs(sp.OperationMethodPaths()) })
	add("RequiredConsumes", func(sp *analysis.Spec) any { return sortedStrs(sp.RequiredConsumes()) })
	add("RequiredProduces", func(sp *analysis.Spec) any { return sortedStrs(sp.RequiredProduces()) })
	add("RequiredSecuritySchemes", func(sp *analysis.Spec) any { return sortedStrs(sp.RequiredSecuritySchemes()) })
	add("AllDefinitions", func(sp *analysis.Spec) any { return canonSchemaRefs(sp.AllDefinitions()) })
	add("SchemasWithAllOf", func(sp *analysis.Spec) any { return canonSchemaRefs(sp.SchemasWithAllOf()) })
	add("AllDefinitionReferences", func(sp *analysis.Spec) any { return sortedStrs(sp.AllDefinitionReferences()) })
	add("AllParameterReferences", func(sp *analysis.Spec) any { return sortedStrs(sp.AllParameterReferences()) })
	add("AllResponseReferences", func(sp *analysis.Spec) any { return sortedStrs(sp.AllResponseReferences()) })
	add("AllPathItemReferences", func(sp *analysis.Spec) any { return sortedStrs(sp.AllPathItemReferences()) })
	add("AllItemsReferences", func(sp *analysis.Spec) any { return sortedStrs(sp.AllItemsReferences()) })
	add("AllReferences", func(sp *analysis.Spec) any { return sortedStrs(sp.AllReferences()) })
	add("AllRefs", func(sp *analysis.Spec) any {
		var l []string
		for _, r := range sp.AllRefs() {
			l = append(l, r.String())
		}
		return sortedStrs(l)
	})
	add("ParameterPatterns", func(sp *analysis.Spec) any { return lib.ToGeneric(sp.ParameterPatterns()) })
	add("HeaderPatterns", func(sp *analysis.Spec) any { return lib.ToGeneric(sp.HeaderPatterns()) })
	add("ItemsPatterns", func(sp *analysis.Spec) any { return lib.ToGeneric(sp.ItemsPatterns()) })
	add("SchemaPatterns", func(sp *analysis.Spec) any { return lib.ToGeneric(sp.SchemaPatterns()) })
	add("AllPatterns", func(sp *analysis.Spec) any { return lib.ToGeneric(sp.AllPatterns()) })
	add("ParameterEnums", func(sp *analysis.Spec) any { return lib.ToGeneric(sp.ParameterEnums()) })
	add("HeaderEnums", func(sp *analysis.Spec) any { return lib.ToGeneric(sp.HeaderEnums()) })
	add("ItemsEnums", func(sp *analysis.Spec) any { return lib.ToGeneric(sp.ItemsEnums()) })
	add("SchemaEnums", func(sp *analysis.Spec) any { return lib.ToGeneric(sp.SchemaEnums()) })
	add("AllEnums", func(sp *analysis.Spec) any { return lib.ToGeneric(sp.AllEnums()) })
	for _, p := range d.Paths {
		for _, m := range d.Methods {
			m, p := m, p
			add("OperationFor("+m+" "+p+")", func(sp *analysis.Spec) any {
				op, ok := sp.OperationFor(m, p)
				if !ok {
					return false
				}
				return lib.ToGeneric(op)
			})
			add("ParamsFor("+m+" "+p+")", func(sp *analysis.Spec) any {
				return guarded(func() any { return canonParams(sp.ParamsFor(m, p)) })
			})
			add("SafeParamsFor("+m+" "+p+")", func(sp *analysis.Spec) any {
				return guarded(func() any {
					var bad []string
					r := sp.SafeParamsFor(m, p, func(pa spec.Parameter, err error) bool {
						bad = append(bad, pa.Ref.String())
						return true
					})
					return jx.Arr{canonParams(r), bad}
				})
			})
			// per-operation getters
			add("ForOp("+m+" "+p+")", func(sp *analysis.Spec) any {
				op, ok := sp.OperationFor(m, p)
				if !ok {
					return false
				}
				return jx.Obj{
					"consumes": lib.ToGeneric(sortedStrs(sp.ConsumesFor(op))),
					"produces": lib.ToGeneric(sortedStrs(sp.ProducesFor(op))),
					"secreq":   canonSecReqs(sp.SecurityRequirementsFor(op)),
					"secdef":   lib.ToGeneric(sp.SecurityDefinitionsFor(op)),
				}
			})
		}
	}
	for _, id := range d.IDs {
		id := id
		add("OperationForName("+id+")", func(sp *analysis.Spec) any {
			m, p, op, ok := sp.OperationForName(id)
			if !ok {
				return false
			}
			return jx.Arr{m, p, lib.ToGeneric(op)}
		})
		add("ParametersFor("+id+")", func(sp *analysis.Spec) any {
			return guarded(func() any { return canonParamList(sp.ParametersFor(id)) })
		})
		add("SafeParametersFor("+id+")", func(sp *analysis.Spec) any {
			return guarded(func() any {
				var bad []string
				r := sp.SafeParametersFor(id, func(pa spec.Parameter, err error) bool {
					bad = append(bad, pa.Ref.String())
					return true
				})
				return jx.Arr{canonParamList(r), bad}
			})
		})
	}
	return gs
}

// Answer renders one getter's answer canonically.
func Answer(g Getter, sp *analysis.Spec) string {
	return jx.CanonS(lib.ToGeneric(guarded(func() any { return g.Call(sp) })))
}
