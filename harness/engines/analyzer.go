package engines

import (
	"fmt"
	"sort"
	"strconv"
	"strings"

	"github.com/go-openapi/analysis"
	"github.com/go-openapi/spec"
	"github.com/go-openapi/swag"

	"verif/harness/gen"
	"verif/harness/jx"
	"verif/harness/lib"
	"verif/harness/oracle"
	"verif/harness/runner"
)

func init() { runner.Register("analyzer", analyzerEngine{}, "C11", "C12", "C13", "C14", "C15") }

type analyzerEngine struct{}

var leafKinds = []string{"ref", "pattern", "enum"}
var hostileClasses = gen.NameClasses[1:]

func (analyzerEngine) counts(prop, tier string) (sys, rnd, fix int) {
	fix = len(lib.Fixtures())
	rnd = 1500
	if tier == "thorough" {
		rnd = 60000
	}
	switch prop {
	case "C11", "C12", "C13":
		sys = gen.PlantedCount() * 3 * 2
	case "C14":
		sys = 128 + 9 + 9 + 50 + 4
	case "C15":
		sys = 7 * 14
	}
	return
}

func (e analyzerEngine) NumCases(prop, tier string, seed uint64) int {
	s, r, f := e.counts(prop, tier)
	return s + r + f
}

func hostilePath(class string, i int) string {
	rng := gen.NewRng(99, i)
	switch class {
	case "slash":
		return "/a/b/{id}"
	case "hash", "qmark":
		return "/pets" + map[string]string{"hash": "#", "qmark": "?"}[class] + "frag/{id}"
	}
	return "/" + gen.Name(rng, class, i) + "/{id}"
}

func (e analyzerEngine) Gen(prop, tier string, seed uint64, idx int) *runner.Case {
	sys, rnd, _ := e.counts(prop, tier)
	c := &runner.Case{Engine: "analyzer", Files: map[string]string{}, Root: "doc.json"}
	var doc jx.Obj
	switch {
	case idx < sys && (prop == "C11" || prop == "C12" || prop == "C13"):
		n := gen.PlantedCount()
		hostile := idx >= n*3
		k := idx % (n * 3)
		i, kind := k/3, leafKinds[k%3]
		method := oracle.Methods[i%7]
		path, key := "/things/{id}", "theKey"
		if hostile {
			class := hostileClasses[i%len(hostileClasses)]
			key = gen.Name(gen.NewRng(7, i), class, i)
			path = hostilePath(hostileClasses[(i/len(hostileClasses))%len(hostileClasses)], i)
			c.Tags = append(c.Tags, "name:"+class)
		}
		p := gen.PlantedDoc(i, kind, path, method, key)
		if i%4 == 3 {
			p = gen.PlantedDocRefSiblings(i, kind, path, method, key)
		}
		doc = p.Doc
		c.Name = "sys/" + p.Name
		if i%5 == 2 {
			// an operation without any "responses" key (loadable): its parameters are still analysed
			if op := jx.AsObj(jx.AsObj(jx.AsObj(doc["paths"])[path])[method]); op != nil {
				if rs := jx.AsObj(op["responses"]); len(rs) == 1 && len(jx.AsObj(rs["200"])) == 1 {
					delete(op, "responses")
					c.Name += "/no-responses"
				}
			}
		}
		if hostile {
			c.Name += "/hostile"
			if i%2 == 0 {
				// the path item is also a $ref: its sibling operations and parameters are still part of the document
				if pi := jx.AsObj(jx.AsObj(doc["paths"])[path]); pi != nil {
					if _, has := pi["$ref"]; !has {
						pi["$ref"] = "#/x-shared-paths/other"
						c.Name += "/pathitem-ref"
					}
				}
			}
		}
	case idx < sys && prop == "C14":
		doc = c14Sys(idx, c)
	case idx < sys && prop == "C15":
		doc = c15Sys(idx, c)
	case idx < sys+rnd:
		rng := gen.NewRng(seed, idx)
		c.Name = "rnd/" + strconv.Itoa(idx)
		cfg := gen.DocCfg{Hostile: gen.Chance(rng, 60), Depth: 1 + rng.IntN(3), Extended: true, PatEnum: true, RefPct: 25, RemoteRefs: true, OpNoResp: gen.Chance(rng, 40)}
		switch prop {
		case "C14":
			cfg = gen.DocCfg{Depth: 1, Security: true, MaxPaths: 5, MaxDefs: 2, NoPaths: gen.Chance(rng, 5)}
		case "C15":
			cfg = gen.DocCfg{Depth: 1, BadParamRefs: true, MaxPaths: 4, MaxDefs: 2, NoPaths: gen.Chance(rng, 8), Hostile: gen.Chance(rng, 30), OpNoResp: gen.Chance(rng, 30)}
		}
		doc = gen.Doc(rng, cfg)
	default:
		f := lib.Fixtures()[idx-sys-rnd]
		c.Name = "fixture/" + f
		b := lib.ReadFixtureJSON(f)
		if b == nil {
			c.Extra = map[string]any{"skip": "not a loadable swagger document"}
			return c
		}
		c.Files["doc.json"] = string(b)
		return c
	}
	c.Files["doc.json"] = string(jx.Canon(doc))
	return c
}

func opWith(extra jx.Obj) jx.Obj {
	op := jx.Obj{"responses": jx.Obj{"200": jx.Obj{"description": "ok"}}}
	for k, v := range extra {
		op[k] = v
	}
	return op
}

func c14Sys(idx int, c *runner.Case) jx.Obj {
	doc := jx.Obj{"swagger": "2.0", "info": jx.Obj{"title": "t", "version": "1"}}
	three := func(k int, a, b string) any { // absent / empty / non-empty
		switch k {
		case 1:
			return jx.Arr{}
		case 2:
			return jx.Arr{a, b}
		}
		return nil
	}
	switch {
	case idx < 128:
		c.Name = fmt.Sprintf("sys/methods/%07b", idx)
		pi := jx.Obj{}
		for i, m := range oracle.Methods {
			if idx&(1<<i) != 0 {
				op := opWith(nil)
				if i%2 == 0 {
					op["operationId"] = "id_" + m
				}
				pi[m] = op
			}
		}
		// ids that differ by letter case only are different ids
		doc["paths"] = jx.Obj{"/p/{id}": pi, "/other": jx.Obj{"get": opWith(jx.Obj{"operationId": "otherGet"}), "options": opWith(jx.Obj{"operationId": "OtherGet"})},
			"/catalog": jx.Obj{"head": opWith(jx.Obj{"operationId": "ID_GET"})}}
	case idx < 128+18:
		k := idx - 128
		field := "consumes"
		if k >= 9 {
			field, k = "produces", k-9
		}
		c.Name = fmt.Sprintf("sys/%s/doc=%d/op=%d", field, k/3, k%3)
		if v := three(k/3, "application/json", "text/plain"); v != nil {
			doc[field] = v
		}
		op := opWith(jx.Obj{"operationId": "a"})
		if v := three(k%3, "application/xml", "application/json"); v != nil {
			if a, isList := v.(jx.Arr); isList && len(a) > 0 && k/3 == 2 {
				v = append(a, a[0], a[1], a[0]) // the same media types listed several times
			}
			op[field] = v
		}
		doc["paths"] = jx.Obj{"/p": jx.Obj{"post": op, "get": opWith(nil)}}
	case idx >= 128+18+50:
		k := idx - (128 + 18 + 50)
		c.Name = fmt.Sprintf("sys/required-media/%d", k)
		doc["consumes"] = jx.Arr{"application/json"}
		doc["produces"] = jx.Arr{"application/json", "application/xml"}
		own := jx.Obj{"consumes": jx.Arr{"text/plain"}, "produces": jx.Arr{"text/csv"}}
		switch k {
		case 0: // every operation overrides both lists
			doc["paths"] = jx.Obj{"/p": jx.Obj{"head": opWith(own), "options": opWith(own)}}
		case 1: // no operation at all
			doc["paths"] = jx.Obj{}
		case 2: // only consumes overridden everywhere
			doc["paths"] = jx.Obj{"/p": jx.Obj{"put": opWith(jx.Obj{"consumes": jx.Arr{"text/plain"}}), "patch": opWith(jx.Obj{"consumes": jx.Arr{"application/x-yaml"}})}}
		default: // no paths section
		}
	default:
		k := idx - 128 - 18
		withDefs := k >= 25
		k %= 25
		sec := func(v int, a, b string) (any, bool) {
			switch v {
			case 1:
				return jx.Arr{}, true
			case 2:
				return jx.Arr{jx.Obj{a: jx.Arr{"read"}}}, true
			case 3:
				return jx.Arr{jx.Obj{a: jx.Arr{}}, jx.Obj{b: jx.Arr{"w"}, a: jx.Arr{}}}, true
			case 4:
				return jx.Arr{jx.Obj{}, jx.Obj{b: jx.Arr{}}}, true
			}
			return nil, false
		}
		c.Name = fmt.Sprintf("sys/security/doc=%d/op=%d/defs=%v", k/5, k%5, withDefs)
		if v, ok := sec(k/5, "docKey", "docOauth"); ok {
			doc["security"] = v
		}
		op := opWith(jx.Obj{"operationId": "a"})
		if v, ok := sec(k%5, "opKey", "docOauth"); ok {
			op["security"] = v
		}
		doc["paths"] = jx.Obj{"/p": jx.Obj{"put": op, "delete": opWith(nil)}}
		if withDefs {
			doc["securityDefinitions"] = jx.Obj{
				"docKey":   jx.Obj{"type": "apiKey", "in": "header", "name": "X-Doc"},
				"opKey":    jx.Obj{"type": "apiKey", "in": "query", "name": "op"},
				"docOauth": jx.Obj{"type": "oauth2", "flow": "implicit", "authorizationUrl": "http://x", "scopes": jx.Obj{"w": "write"}},
				"unused":   jx.Obj{"type": "basic"},
			}
		}
	}
	return doc
}

func c15Sys(idx int, c *runner.Case) jx.Obj {
	m := oracle.Methods[idx/14]
	s := idx % 14
	c.Name = fmt.Sprintf("sys/params/%s/scenario%d", m, s)
	q := func(name, in string, n int) jx.Obj {
		return jx.Obj{"name": name, "in": in, "type": "string", "description": "p" + strconv.Itoa(n)}
	}
	doc := jx.Obj{"swagger": "2.0", "info": jx.Obj{"title": "t", "version": "1"},
		"parameters":  jx.Obj{"shared": q("limit", "query", 100), "other~x": q("skip", "query", 101)},
		"responses":   jx.Obj{"r": jx.Obj{"description": "r"}},
		"definitions": jx.Obj{"D": jx.Obj{"type": "object"}}}
	op := opWith(jx.Obj{"operationId": "theOp"})
	pi := jx.Obj{m: op}
	ref := func(r string) jx.Obj { return jx.Obj{"$ref": r} }
	switch s {
	case 0:
		pi["parameters"] = jx.Arr{q("a", "query", 1), q("b", "header", 2)}
	case 1:
		op["parameters"] = jx.Arr{q("a", "query", 1), jx.Obj{"name": "body", "in": "body", "schema": jx.Obj{"type": "string"}}}
	case 2:
		pi["parameters"] = jx.Arr{q("a", "query", 1), q("b", "query", 2)}
		op["parameters"] = jx.Arr{q("a", "query", 3)}
	case 3:
		pi["parameters"] = jx.Arr{q("a", "query", 1)}
		op["parameters"] = jx.Arr{q("a", "header", 2)}
	case 4:
		pi["parameters"] = jx.Arr{ref("#/parameters/shared"), q("x", "query", 1)}
		op["parameters"] = jx.Arr{q("limit", "query", 2)}
	case 5:
		pi["parameters"] = jx.Arr{q("skip", "query", 1)}
		op["parameters"] = jx.Arr{ref("#/parameters/other~0x"), q("y", "query", 2)}
	case 6:
		pi["parameters"] = jx.Arr{ref("#/parameters/missing"), q("a", "query", 1)}
		op["parameters"] = jx.Arr{q("b", "query", 2)}
	case 7:
		op["parameters"] = jx.Arr{q("a", "query", 1), ref("#/definitions/D"), q("b", "query", 2)}
	case 8:
		pi["parameters"] = jx.Arr{q("a", "query", 1), ref("#/responses/r"), ref("shared/offset.json")}
		op["parameters"] = jx.Arr{ref("#/parameters/shared/name"), q("b", "query", 2), ref("#/nowhere"), ref("http://example.com/params/body.json")}
	case 12: // an x-go-name extension does not change which parameter overrides which
		withExt := q("limit", "query", 1)
		withExt["x-go-name"] = "MaxItems"
		pi["parameters"] = jx.Arr{withExt, ref("#/parameters/named")}
		jx.AsObj(doc["parameters"])["named"] = jx.Obj{"name": "skip", "in": "query", "type": "string", "x-go-name": "Offset", "description": "p102"}
		op["parameters"] = jx.Arr{q("limit", "query", 2), q("skip", "query", 3)}
	case 13: // ... nor which parameters are distinct
		ord := q("order", "query", 2)
		ord["x-go-name"] = "Sort"
		op["parameters"] = jx.Arr{q("sort", "query", 1), ord}
	case 9:
		other := oracle.Methods[(idx/14+1)%7]
		pi = jx.Obj{other: op, "parameters": jx.Arr{q("a", "query", 1)}}
	case 10:
	case 11:
		return doc
	}
	doc["paths"] = jx.Obj{"/p/{id}": pi, "/q": jx.Obj{"get": opWith(nil)}}
	return doc
}

func (analyzerEngine) Info(prop, tier string) runner.Info {
	in := runner.Info{Level: "exploration",
		Assumptions: []string{"spec.Swagger Unmarshal/Marshal defines loadable documents and the normal form", "encoding/json", "section-aware walker harness/oracle/walker.go written against the Swagger 2.0 structure, not the analyzer"}}
	common := "systematic planted documents (one $ref / pattern / enum per location: 7 containers x 11 schema keywords x depth 1..3, container roots, parameters at 3 levels, simple items depth 1..3, " +
		"headers and header items of shared/default/status responses, response and path-item refs; each once with plain and once with hostile names and path templates), seeded random G-doc documents, repository fixtures. "
	switch prop {
	case "C11":
		in.Rule = common + "Oracle: multisets of $refs per kind from an independent walk of the serialized document vs AllReferences/AllRefs/All*References. non-trivial = the document has at least one $ref at a place the statement names; distinct = SHA-256 of the document."
		for _, ct := range gen.Containers {
			for _, kw := range gen.HolderKw {
				in.AllCells = append(in.AllCells, "schema/"+ct+"/"+kw)
			}
			if ct == "definition" {
				in.AllCells = append(in.AllCells, "schema/"+ct+"/root")
			} else {
				in.AllCells = append(in.AllCells, "schema/"+ct+"/schema")
			}
		}
		in.AllCells = append(in.AllCells, "parameter/pathParam", "parameter/opParam", "response/defaultResponse", "response/codeResponse", "pathitem",
			"paramItems/sharedParam", "paramItems/pathParam", "paramItems/opParam", "headerItems/sharedResponse/header", "headerItems/defaultResponse/header", "headerItems/codeResponse/header")
	case "C12":
		in.Rule = common + "Oracle: bijection between the walker's schema positions and AllDefinitions() by decoded pointer; SchemaRef.Ref resolved against the serialized document and through Ref.GetPointer() on the live document must equal SchemaRef.Schema; TopLevel and SchemasWithAllOf compared with the walk. non-trivial = at least one nested (non top-level) schema; distinct = SHA-256 of the document."
		for _, cl := range gen.NameClasses {
			in.AllCells = append(in.AllCells, "name:"+cl)
		}
	case "C13":
		in.Rule = common + "Oracle: (pointer -> value) maps per owner category from the walk vs the ten pattern/enum getters. non-trivial = at least one pattern or enum present; distinct = SHA-256 of the document."
		for _, k := range []string{"pattern", "enum"} {
			for _, w := range []string{"sharedParam", "pathParam", "opParam", "sharedResponse/header", "defaultResponse/header", "codeResponse/header"} {
				in.AllCells = append(in.AllCells, k+"/"+w)
				if strings.HasSuffix(w, "Param") || strings.HasSuffix(w, "header") {
					for d := 1; d <= 3; d++ {
						in.AllCells = append(in.AllCells, fmt.Sprintf("%s/%s/items%d", k, w, d))
					}
				}
			}
			for _, ct := range gen.Containers {
				for d := 0; d <= 3; d++ {
					in.AllCells = append(in.AllCells, fmt.Sprintf("%s/%s/schema%d", k, ct, d))
				}
			}
		}
	case "C14":
		in.Rule = "exhaustive decision tables: all 128 method subsets on a path; {absent, empty, non-empty} x {document, operation} for consumes and produces; {absent, [], one, two alternatives, anonymous} x {document, operation} security with and without definitions; seeded random G-doc documents with security; fixtures. " +
			"Oracle: reference model over generic JSON of every lookup named in the statement (multisets for listings, sets for media types and schemes). non-trivial = the document has at least one operation; distinct = SHA-256 of the document."
	case "C15":
		in.Rule = "systematic: 7 methods x 12 scenarios (path-level only, operation-level only, override on equal (in,name), same name different in, valid $ref at either level, dangling / non-parameter $refs first-middle-last, method absent on an existing path, no parameters, no paths); random G-doc documents with bad parameter refs; fixtures. " +
			"Every method x path (existing or not) and every id (known or not) is queried through the four variants. Oracle: reference model of effective parameters; callback protocol; plain variants must panic iff a bad ref is on the path taken. non-trivial = some queried operation has parameters; distinct = SHA-256 of the document."
	}
	return in
}

func msKey(ref string) string {
	f, toks, err := jx.SplitRef(ref)
	if err != nil {
		return "!" + ref
	}
	return f + "#" + jx.Ptr(toks)
}

func multiset(xs []string) map[string]int {
	m := map[string]int{}
	for _, x := range xs {
		m[msKey(x)]++
	}
	return m
}

func msDiff(want, got map[string]int) string {
	var d []string
	for k, n := range want {
		if got[k] < n {
			d = append(d, fmt.Sprintf("missing %q (want %d, got %d)", k, n, got[k]))
		}
	}
	for k, n := range got {
		if want[k] < n {
			d = append(d, fmt.Sprintf("extra %q (want %d, got %d)", k, want[k], n))
		}
	}
	sort.Strings(d)
	return strings.Join(d, "; ")
}

func (e analyzerEngine) Check(prop, tier string, c *runner.Case) *runner.Result {
	res := &runner.Result{}
	if s, ok := c.Extra["skip"].(string); ok {
		res.Skipped = s
		return res
	}
	text := []byte(c.Files["doc.json"])
	nf, err := lib.NormalForm(text)
	if err != nil {
		res.Skipped = "not loadable"
		return res
	}
	raw := jx.AsObj(jx.MustParse(text))
	sw := lib.MustLoad(text)
	nodes := jx.CountNodes(nf)
	w := oracle.WalkDoc(nf)
	fixture := strings.HasPrefix(c.Name, "fixture/")
	if (prop == "C11" || prop == "C12" || prop == "C13") && fixture && (w.NonBodySchemaParam || w.SharedSelfRef) {
		res.Skipped = "outside the class: non-body parameter with a schema, or shared object that is itself a $ref"
		return res
	}
	var sp *analysis.Spec
	_, pi := runner.Call(nodes, nil, func() { sp = analysis.New(sw) })
	res.Evals++
	if pi != nil {
		res.Violate("panic", "panic:New:"+pi.Site()+":"+runner.MsgClass(pi.Msg), "", "analysis.New panicked: "+pi.Msg+"\n"+pi.Stack)
		return res
	}
	switch prop {
	case "C11":
		e.c11(res, sp, w)
	case "C12":
		e.c12(res, sp, sw, nf, w, c)
	case "C13":
		e.c13(res, sp, w)
	case "C14":
		e.c14(res, sp, nf, raw, w, nodes)
	case "C15":
		e.c15(res, sp, nf, w, nodes)
	}
	return res
}

func (analyzerEngine) c11(res *runner.Result, sp *analysis.Spec, w *oracle.Walk) {
	byKind := map[string][]string{}
	var all []string
	for _, r := range w.Refs {
		switch r.Kind {
		case "sharedParamSelf", "sharedResponseSelf":
			continue
		}
		k := r.Kind
		if k == "paramItems" || k == "headerItems" {
			res.Cell(k + "/" + r.Container)
			k = "items"
		} else if k == "schema" {
			h := r.Holder
			if h == "" {
				h = "root"
			}
			res.Cell("schema/" + r.Container + "/" + h)
		} else if k == "pathitem" {
			res.Cell("pathitem")
		} else {
			res.Cell(k + "/" + r.Container)
		}
		byKind[k] = append(byKind[k], r.Ref)
		all = append(all, r.Ref)
	}
	cmp := func(kind, getter string, got []string) {
		res.Evals++
		if d := msDiff(multiset(byKind[kind]), multiset(got)); d != "" {
			k := "index-missing"
			if strings.HasPrefix(d, "extra") {
				k = "index-extra"
			}
			res.Violate(k, k+":"+getter, "", getter+" vs walk: "+d)
		}
	}
	cmp("schema", "AllDefinitionReferences", sp.AllDefinitionReferences())
	cmp("parameter", "AllParameterReferences", sp.AllParameterReferences())
	cmp("response", "AllResponseReferences", sp.AllResponseReferences())
	cmp("pathitem", "AllPathItemReferences", sp.AllPathItemReferences())
	cmp("items", "AllItemsReferences", sp.AllItemsReferences())
	byKind["all"] = all
	cmp("all", "AllReferences", sp.AllReferences())
	// AllRefs: the set of distinct refs
	want := map[string]int{}
	for _, r := range all {
		want[msKey(r)] = 1
	}
	got := map[string]int{}
	for _, r := range sp.AllRefs() {
		got[msKey(r.String())]++
	}
	res.Evals++
	if d := msDiff(want, got); d != "" {
		res.Violate("index-set", "index-set:AllRefs", "", "AllRefs vs distinct refs of the walk: "+d)
	}
	res.Ev("refs_compared", len(all))
	res.Nontrivial = len(all) > 0
}

func (analyzerEngine) c12(res *runner.Result, sp *analysis.Spec, sw *spec.Swagger, nf jx.Obj, w *oracle.Walk, c *runner.Case) {
	want := map[string]oracle.SchemaPos{}
	for _, s := range w.Schemas {
		want[jx.Ptr(s.Ptr)] = s
	}
	seen := map[string]int{}
	nested := 0
	for _, t := range c.Tags {
		if strings.HasPrefix(t, "name:") {
			res.Cell(t)
		}
	}
	res.Cell("name:ident")
	for _, sr := range sp.AllDefinitions() {
		res.Evals++
		file, toks, err := jx.SplitRef(sr.Ref.String())
		if err != nil || file != "" {
			res.Violate("bad-index-ref", "bad-index-ref", "", "SchemaRef.Ref is not a local pointer: "+sr.Ref.String())
			continue
		}
		key := jx.Ptr(toks)
		seen[key]++
		pos, ok := want[key]
		if !ok {
			res.Violate("index-extra", "index-extra:AllDefinitions", "", "AllDefinitions lists "+sr.Ref.String()+" which is not a schema position of the document")
			continue
		}
		node, found := jx.Get(nf, toks)
		got := lib.ToGeneric(sr.Schema)
		if !found || !jx.Equal(node, got) {
			res.Violate("pointer-mismatch", "pointer-mismatch:serialized", "", fmt.Sprintf("%s resolved against the serialized document does not yield SchemaRef.Schema (found=%v)", sr.Ref.String(), found))
		}
		// the way the flattener consumes it: the pointer evaluated on the live document
		var live any
		var lerr error
		_, pi := runner.Call(100, nil, func() { live, _, lerr = sr.Ref.GetPointer().Get(sw) })
		if pi != nil || lerr != nil {
			res.Violate("pointer-mismatch", "pointer-mismatch:live-error", "", fmt.Sprintf("%s: GetPointer().Get on the live document fails: %v %v", sr.Ref.String(), lerr, pi))
		} else if !jx.Equal(lib.ToGeneric(live), got) {
			res.Violate("pointer-mismatch", "pointer-mismatch:live", "", sr.Ref.String()+": GetPointer().Get on the live document reaches a different schema")
		}
		if sr.TopLevel != pos.TopLevel {
			res.Violate("toplevel-flag", "toplevel-flag", "", fmt.Sprintf("%s: TopLevel=%v, expected %v", sr.Ref.String(), sr.TopLevel, pos.TopLevel))
		}
		if sr.Name != pos.Name {
			res.Violate("name-mismatch", "name-mismatch", "", fmt.Sprintf("%s: Name=%q, expected %q", sr.Ref.String(), sr.Name, pos.Name))
		}
		if !pos.TopLevel {
			nested++
		}
	}
	for k := range want {
		switch seen[k] {
		case 1:
		case 0:
			res.Violate("index-missing", "index-missing:AllDefinitions", "", "schema position "+k+" is not listed by AllDefinitions")
		default:
			res.Violate("index-duplicate", "index-duplicate:AllDefinitions", "", fmt.Sprintf("schema position %s is listed %d times", k, seen[k]))
		}
	}
	wantAllOf := map[string]int{}
	for _, s := range w.Schemas {
		if len(jx.AsArr(s.Node["allOf"])) > 0 {
			wantAllOf[jx.Ptr(s.Ptr)] = 1
		}
	}
	gotAllOf := map[string]int{}
	for _, sr := range sp.SchemasWithAllOf() {
		_, toks, _ := jx.SplitRef(sr.Ref.String())
		gotAllOf[jx.Ptr(toks)]++
	}
	res.Evals++
	if d := msDiff(wantAllOf, gotAllOf); d != "" {
		res.Violate("allof-index", "allof-index", "", "SchemasWithAllOf vs walk: "+d)
	}
	res.Ev("schema_positions", len(want))
	res.Ev("allof_positions", len(wantAllOf))
	res.Nontrivial = nested > 0
}

func (analyzerEngine) c13(res *runner.Result, sp *analysis.Spec, w *oracle.Walk) {
	type tbl struct {
		cat    string
		pat    map[string]string
		enum   map[string][]interface{}
		getter string
	}
	tbls := []tbl{
		{"parameter", sp.ParameterPatterns(), sp.ParameterEnums(), "Parameter"},
		{"header", sp.HeaderPatterns(), sp.HeaderEnums(), "Header"},
		{"items", sp.ItemsPatterns(), sp.ItemsEnums(), "Items"},
		{"schema", sp.SchemaPatterns(), sp.SchemaEnums(), "Schema"},
		{"*", sp.AllPatterns(), sp.AllEnums(), "All"},
	}
	res.Evals += 10
	n := 0
	for _, t := range tbls {
		wantP, wantE := map[string]any{}, map[string]any{}
		where := map[string]string{}
		for _, o := range w.Patterns {
			if t.cat == "*" || o.Cat == t.cat {
				wantP["#"+jx.Ptr(o.Ptr)] = o.Value
				where["#"+jx.Ptr(o.Ptr)] = o.Where
				if t.cat != "*" {
					res.Cell("pattern/" + o.Where)
					n++
				}
			}
		}
		for _, o := range w.Enums {
			if t.cat == "*" || o.Cat == t.cat {
				wantE["#"+jx.Ptr(o.Ptr)] = o.Value
				where["#"+jx.Ptr(o.Ptr)] = o.Where
				if t.cat != "*" {
					res.Cell("enum/" + o.Where)
					n++
				}
			}
		}
		gotP := map[string]any{}
		for k, v := range t.pat {
			gotP[k] = v
		}
		gotE := map[string]any{}
		for k, v := range t.enum {
			gotE[k] = lib.ToGeneric(v)
		}
		for _, x := range []struct {
			kind      string
			want, got map[string]any
		}{{"Patterns", wantP, gotP}, {"Enums", wantE, gotE}} {
			for k, v := range x.want {
				g, ok := x.got[k]
				if !ok {
					res.Violate("index-missing", "index-missing:"+t.getter+x.kind+":"+where[k], "", fmt.Sprintf("%s%s() lacks %s (declared in the document as %s)", t.getter, x.kind, k, jx.CanonS(v)))
				} else if !jx.Equal(v, g) {
					res.Violate("index-value", "index-value:"+t.getter+x.kind, "", fmt.Sprintf("%s%s()[%s] = %s, document says %s", t.getter, x.kind, k, jx.CanonS(g), jx.CanonS(v)))
				}
			}
			for k := range x.got {
				if _, ok := x.want[k]; !ok {
					res.Violate("index-extra", "index-extra:"+t.getter+x.kind, "", fmt.Sprintf("%s%s() reports %s which the walk does not find in that category", t.getter, x.kind, k))
				}
			}
		}
	}
	res.Ev("patterns_and_enums", n)
	res.Nontrivial = n > 0
}

func setOf(xs []string) map[string]int {
	m := map[string]int{}
	for _, x := range xs {
		m[x] = 1
	}
	return m
}

func strList(v any) []string {
	var out []string
	for _, x := range jx.AsArr(v) {
		out = append(out, jx.AsStr(x))
	}
	return out
}

func plainDiff(want, got map[string]int) string {
	var d []string
	for k, n := range want {
		if got[k] != n {
			d = append(d, fmt.Sprintf("%q want %d got %d", k, n, got[k]))
		}
	}
	for k, n := range got {
		if _, ok := want[k]; !ok {
			d = append(d, fmt.Sprintf("%q want 0 got %d", k, n))
		}
	}
	sort.Strings(d)
	return strings.Join(d, "; ")
}

func count(xs []string) map[string]int {
	m := map[string]int{}
	for _, x := range xs {
		m[x]++
	}
	return m
}

func rawOp(raw jx.Obj, path, method string) jx.Obj {
	return jx.AsObj(jx.AsObj(jx.AsObj(raw["paths"])[path])[method])
}

func (analyzerEngine) c14(res *runner.Result, sp *analysis.Spec, nf, raw jx.Obj, w *oracle.Walk, nodes int) {
	bad := func(kind, detail string) { res.Violate(kind, kind, "", detail) }
	// listings
	var wantIDs, wantMP []string
	idCount := map[string]int{}
	for _, op := range w.Ops {
		mp := strings.ToUpper(op.Method) + " " + op.Path
		wantMP = append(wantMP, mp)
		id := jx.AsStr(op.Node["operationId"])
		if id == "" {
			wantIDs = append(wantIDs, mp)
		} else {
			wantIDs = append(wantIDs, id)
			idCount[id]++
		}
		res.Cell("method/" + op.Method)
	}
	res.Evals += 4
	if d := plainDiff(count(wantMP), count(sp.OperationMethodPaths())); d != "" {
		bad("listing:OperationMethodPaths", d)
	}
	if d := plainDiff(count(wantIDs), count(sp.OperationIDs())); d != "" {
		bad("listing:OperationIDs", d)
	}
	// Operations()
	gotOps := map[string]int{}
	for m, byPath := range sp.Operations() {
		for p, op := range byPath {
			k := m + " " + p
			gotOps[k]++
			node := jx.AsObj(jx.AsObj(jx.AsObj(nf["paths"])[p])[strings.ToLower(m)])
			if node == nil || !jx.Equal(node, lib.ToGeneric(op)) || m != strings.ToUpper(m) {
				bad("listing:Operations:content", fmt.Sprintf("Operations()[%s][%s] is not the document's operation", m, p))
			}
		}
	}
	if d := plainDiff(count(wantMP), gotOps); d != "" {
		bad("listing:Operations", d)
	}
	// AllPaths
	gotPaths := map[string]int{}
	for p, pi := range sp.AllPaths() {
		gotPaths[p]++
		if !jx.Equal(jx.AsObj(nf["paths"])[p], lib.ToGeneric(pi)) {
			bad("listing:AllPaths:content", "AllPaths()["+p+"] differs from the document")
		}
	}
	wantPaths := map[string]int{}
	for _, p := range jx.Keys(jx.AsObj(nf["paths"])) {
		if strings.HasPrefix(p, "/") {
			wantPaths[p] = 1
		}
	}
	if d := plainDiff(wantPaths, gotPaths); d != "" {
		bad("listing:AllPaths", d)
	}
	// lookups by method and path
	dom := DomainOf(nf)
	for _, p := range dom.Paths {
		for _, m := range oracle.Methods {
			node := jx.AsObj(jx.AsObj(jx.AsObj(nf["paths"])[p])[m])
			for _, spelling := range []string{m, strings.ToUpper(m), strings.ToUpper(m[:1]) + m[1:]} {
				res.Evals++
				op, ok := sp.OperationFor(spelling, p)
				if ok != (node != nil) {
					bad("lookup:OperationFor:found", fmt.Sprintf("OperationFor(%q,%q) found=%v, document has it: %v", spelling, p, ok, node != nil))
				} else if ok && !jx.Equal(node, lib.ToGeneric(op)) {
					bad("lookup:OperationFor:content", fmt.Sprintf("OperationFor(%q,%q) returns another operation", spelling, p))
				}
			}
		}
	}
	// lookups by id
	for _, op := range w.Ops {
		id := jx.AsStr(op.Node["operationId"])
		if id == "" || idCount[id] != 1 {
			continue
		}
		res.Evals++
		m, p, o, ok := sp.OperationForName(id)
		if !ok || m != strings.ToUpper(op.Method) || p != op.Path || !jx.Equal(op.Node, lib.ToGeneric(o)) {
			bad("lookup:OperationForName", fmt.Sprintf("OperationForName(%q) = (%q,%q,found=%v), expected %s %s", id, m, p, ok, strings.ToUpper(op.Method), op.Path))
		}
	}
	if _, _, _, ok := sp.OperationForName("__unknown__"); ok {
		bad("lookup:OperationForName:unknown", "an unknown id was found")
	}
	// media types and security
	docCons, docProd := strList(nf["consumes"]), strList(nf["produces"])
	reqCons, reqProd := append([]string{}, docCons...), append([]string{}, docProd...)
	schemes := map[string]int{}
	addSchemes := func(v any) {
		for _, alt := range jx.AsArr(v) {
			for k := range jx.AsObj(alt) {
				schemes[k] = 1
			}
		}
	}
	addSchemes(raw["security"])
	secDefs := jx.AsObj(nf["securityDefinitions"])
	for _, o := range w.Ops {
		op, ok := sp.OperationFor(o.Method, o.Path)
		if !ok {
			continue
		}
		ro := rawOp(raw, o.Path, o.Method)
		own := strList(o.Node["consumes"])
		reqCons = append(reqCons, own...)
		wantC := own
		cell := "consumes/op"
		if len(own) == 0 {
			wantC = docCons
			cell = "consumes/doc"
		}
		res.Cell(cell)
		res.Evals += 4
		if d := plainDiff(setOf(wantC), count(sp.ConsumesFor(op))); d != "" {
			bad("media:ConsumesFor", fmt.Sprintf("%s %s: %s", o.Method, o.Path, d))
		}
		ownP := strList(o.Node["produces"])
		reqProd = append(reqProd, ownP...)
		wantP := ownP
		if len(ownP) == 0 {
			wantP = docProd
		}
		if d := plainDiff(setOf(wantP), count(sp.ProducesFor(op))); d != "" {
			bad("media:ProducesFor", fmt.Sprintf("%s %s: %s", o.Method, o.Path, d))
		}
		// security requirements: the operation's when it declares any (even empty), the document's otherwise
		var eff any
		declared := false
		if v, ok := ro["security"]; ok && v != nil {
			eff, declared = v, true
			addSchemes(v)
			if len(jx.AsArr(v)) == 0 {
				res.Cell("security/op-empty")
			} else {
				res.Cell("security/op")
			}
		} else if v, ok := raw["security"]; ok && v != nil {
			eff, declared = v, true
			res.Cell("security/doc")
		} else {
			res.Cell("security/none")
		}
		wantReq := jx.Arr{}
		names := map[string]bool{}
		for _, alt := range jx.AsArr(eff) {
			var l []string
			a := jx.AsObj(alt)
			if len(a) == 0 {
				l = append(l, jx.CanonS(jx.Obj{"name": "", "scopes": jx.Arr{}}))
				res.Cell("security/anonymous")
			}
			for k, sc := range a {
				scs := jx.AsArr(sc)
				if scs == nil {
					scs = jx.Arr{}
				}
				l = append(l, jx.CanonS(jx.Obj{"name": k, "scopes": scs}))
				names[k] = true
			}
			sort.Strings(l)
			wantReq = append(wantReq, strings.Join(l, ","))
		}
		gotReqRaw := sp.SecurityRequirementsFor(op)
		gotReq := canonSecReqs(gotReqRaw)
		// the anonymous requirement is a single zero value: Scopes may be nil there
		gr := strings.ReplaceAll(jx.CanonS(gotReq), `"scopes":null`, `"scopes":[]`)
		if gr != jx.CanonS(wantReq) {
			bad("security:RequirementsFor", fmt.Sprintf("%s %s (declared=%v): got %s want %s", o.Method, o.Path, declared, gr, jx.CanonS(wantReq)))
		}
		wantDefs := jx.Obj{}
		for n := range names {
			if d, ok := secDefs[n]; ok && d != nil {
				wantDefs[n] = d
			}
		}
		gotDefs := jx.AsObj(lib.ToGeneric(sp.SecurityDefinitionsFor(op)))
		if gotDefs == nil {
			gotDefs = jx.Obj{}
		}
		if !jx.Equal(wantDefs, gotDefs) {
			bad("security:DefinitionsFor", fmt.Sprintf("%s %s: got %s want %s", o.Method, o.Path, jx.CanonS(gotDefs), jx.CanonS(wantDefs)))
		}
		for _, alt := range gotReqRaw {
			w2 := jx.Obj{}
			for _, r := range alt {
				if d, ok := secDefs[r.Name]; ok && d != nil {
					w2[r.Name] = d
				}
			}
			res.Evals++
			g2 := jx.AsObj(lib.ToGeneric(sp.SecurityDefinitionsForRequirements(alt)))
			if g2 == nil {
				g2 = jx.Obj{}
			}
			if !jx.Equal(w2, g2) {
				bad("security:DefinitionsForRequirements", fmt.Sprintf("%s %s: got %s want %s", o.Method, o.Path, jx.CanonS(g2), jx.CanonS(w2)))
			}
		}
	}
	res.Evals += 3
	if d := plainDiff(setOf(reqCons), count(sp.RequiredConsumes())); d != "" {
		bad("media:RequiredConsumes", d)
	}
	if d := plainDiff(setOf(reqProd), count(sp.RequiredProduces())); d != "" {
		bad("media:RequiredProduces", d)
	}
	if d := plainDiff(schemes, count(sp.RequiredSecuritySchemes())); d != "" {
		bad("security:RequiredSecuritySchemes", d)
	}
	res.Ev("operations", len(w.Ops))
	res.Nontrivial = len(w.Ops) > 0
}

func paramSet(ps []jx.Obj) map[string]int {
	m := map[string]int{}
	for _, p := range ps {
		m[jx.CanonS(p)]++
	}
	return m
}

func (analyzerEngine) c15(res *runner.Result, sp *analysis.Spec, nf jx.Obj, w *oracle.Walk, nodes int) {
	dom := DomainOf(nf)
	paths := jx.AsObj(nf["paths"])
	idCount := map[string]int{}
	for _, o := range w.Ops {
		if id := jx.AsStr(o.Node["operationId"]); id != "" {
			idCount[id]++
		}
	}
	if paths == nil {
		res.Cell("no-paths")
	}
	hadParams := false
	check := func(label string, pm *oracle.ParamModel, call func(cb analysis.ErrorOnParamFunc) []jx.Obj) {
		// Go-name keying precondition
		seen := map[string]string{}
		if pm != nil {
			for _, n := range pm.Names {
				g := swag.ToGoName(n)
				if prev, ok := seen[g]; ok && prev != n {
					res.Ev("skipped_goname_collision", 1)
					return
				}
				seen[g] = n
			}
		}
		var want, wantList, wantAll map[string]int
		var wantBad []string
		if pm != nil {
			want, wantList, wantAll, wantBad = paramSet(pm.Skip), paramSet(pm.StopList), paramSet(pm.StopAll), pm.Bad
			if len(pm.Skip) > 0 {
				hadParams = true
			}
			if len(wantBad) > 0 {
				res.Cell("bad-ref")
			}
		} else {
			want, wantList, wantAll = map[string]int{}, map[string]int{}, map[string]int{}
			res.Cell("no-such-operation")
		}
		// 1. callback returning true
		var gotBad []string
		var got []jx.Obj
		_, pi := runner.Call(nodes, nil, func() {
			got = call(func(p spec.Parameter, err error) bool { gotBad = append(gotBad, p.Ref.String()); return true })
		})
		res.Evals++
		if pi != nil {
			res.Violate("panic", "panic:Safe:"+pi.Site(), label, "Safe variant with a callback panicked: "+pi.Msg+"\n"+pi.Stack)
			return
		}
		if d := plainDiff(want, paramSet(got)); d != "" {
			res.Violate("params-differ", "params-differ:continue", label, "callback=continue: "+d)
		}
		for _, g := range got {
			if r, _ := g["$ref"].(string); r != "" {
				res.Violate("placeholder-returned", "placeholder-returned", label, "result contains an unresolved $ref placeholder "+r)
			}
		}
		if strings.Join(gotBad, "|") != strings.Join(wantBad, "|") {
			res.Violate("callback-protocol", "callback-protocol:continue", label, fmt.Sprintf("callback received %q, expected %q", gotBad, wantBad))
		}
		// 2. callback returning false
		gotBad = nil
		_, pi = runner.Call(nodes, nil, func() {
			got = call(func(p spec.Parameter, err error) bool { gotBad = append(gotBad, p.Ref.String()); return false })
		})
		res.Evals++
		if pi != nil {
			res.Violate("panic", "panic:Safe:"+pi.Site(), label, "Safe variant with a callback panicked: "+pi.Msg)
			return
		}
		gs := paramSet(got)
		if plainDiff(wantList, gs) != "" && plainDiff(wantAll, gs) != "" {
			res.Violate("params-differ", "params-differ:stop", label, "callback=stop: result is neither 'stop this list' nor 'stop everything': "+plainDiff(wantList, gs))
		}
		if len(wantBad) > 0 && (len(gotBad) == 0 || gotBad[0] != wantBad[0]) {
			res.Violate("callback-protocol", "callback-protocol:stop", label, fmt.Sprintf("callback received %q, first bad ref is %q", gotBad, wantBad[0]))
		}
		if len(wantBad) == 0 && len(gotBad) > 0 {
			res.Violate("callback-protocol", "callback-protocol:spurious", label, fmt.Sprintf("callback received %q although every ref resolves", gotBad))
		}
		// 3. plain variant: panics iff there is a bad ref
		_, pi = runner.Call(nodes, nil, func() { got = call(nil) })
		res.Evals++
		switch {
		case pi != nil && len(wantBad) == 0:
			res.Violate("panic", "panic:plain:"+pi.Site(), label, "plain variant panicked although every ref resolves (or no operation is designated): "+pi.Msg+"\n"+pi.Stack)
		case pi == nil && len(wantBad) > 0:
			res.Violate("no-panic-on-bad-ref", "no-panic-on-bad-ref", label, "plain variant returned normally although "+wantBad[0]+" cannot be resolved to a parameter")
		case pi == nil:
			if d := plainDiff(want, paramSet(got)); d != "" {
				res.Violate("params-differ", "params-differ:plain", label, d)
			}
		}
	}
	toObjs := func(m map[string]spec.Parameter) []jx.Obj {
		var out []jx.Obj
		for _, p := range m {
			out = append(out, jx.AsObj(lib.ToGeneric(p)))
		}
		return out
	}
	toObjsL := func(l []spec.Parameter) []jx.Obj {
		var out []jx.Obj
		for _, p := range l {
			out = append(out, jx.AsObj(lib.ToGeneric(p)))
		}
		return out
	}
	for _, p := range dom.Paths {
		pi := jx.AsObj(paths[p])
		for _, m := range oracle.Methods {
			var pm *oracle.ParamModel
			if op := jx.AsObj(pi[m]); op != nil {
				x := oracle.EffectiveParams(nf, jx.AsArr(pi["parameters"]), jx.AsArr(op["parameters"]))
				pm = &x
			} else if pi != nil {
				res.Cell("path-without-method")
			}
			spelling := m
			if len(p)%2 == 0 {
				spelling = strings.ToUpper(m)
			}
			check(fmt.Sprintf("ParamsFor(%s %s)", spelling, p), pm, func(cb analysis.ErrorOnParamFunc) []jx.Obj {
				if cb == nil {
					return toObjs(sp.ParamsFor(spelling, p))
				}
				return toObjs(sp.SafeParamsFor(spelling, p, cb))
			})
		}
	}
	for _, id := range dom.IDs {
		var pm *oracle.ParamModel
		if idCount[id] > 1 {
			continue
		}
		for _, o := range w.Ops {
			if jx.AsStr(o.Node["operationId"]) == id {
				pi := jx.AsObj(paths[o.Path])
				x := oracle.EffectiveParams(nf, jx.AsArr(pi["parameters"]), jx.AsArr(o.Node["parameters"]))
				pm = &x
			}
		}
		check("ParametersFor("+id+")", pm, func(cb analysis.ErrorOnParamFunc) []jx.Obj {
			if cb == nil {
				return toObjsL(sp.ParametersFor(id))
			}
			return toObjsL(sp.SafeParametersFor(id, cb))
		})
	}
	res.Nontrivial = hadParams
}
