package engines

import (
	"crypto/sha256"
	_ "embed"
	"encoding/hex"
	"encoding/json"
	"errors"
	"fmt"
	"os"
	"path"
	"sort"
	"strconv"
	"strings"

	"github.com/go-openapi/analysis"
	"github.com/go-openapi/spec"
	"github.com/go-openapi/swag"

	"verif/harness/gen"
	"verif/harness/jx"
	"verif/harness/lib"
	"verif/harness/oracle"
	"verif/harness/runner"
)

func init() {
	runner.Register("flatten", flattenEngine{}, "C01", "C02", "C03", "C04", "C05", "C06", "C07", "C08", "C10", "CALL")
}

type flattenEngine struct{}

const vroot = "/vbundle"

// ---- in-memory document loader: the only way the library reaches auxiliary documents ----

type memLoader struct {
	files   map[string]string // absolute path -> text
	loads   []string
	failAt  int  // 1-based index of the load to fail (0 = none)
	garbage bool // the failing load delivers a truncated document instead of an I/O error
	failed  bool
}

var curLoader *memLoader

func init() {
	// same strategy as the default loader (swag.LoadFromFileOrHTTP): file paths and file:// URIs go to the
	// local reader, which is the bundle held in memory instead of os.ReadFile; there is no network.
	serve := func(p string, remote bool) ([]byte, error) {
		l := curLoader
		if l == nil {
			return nil, fmt.Errorf("no bundle is loaded (asked for %q)", p)
		}
		if !remote {
			p = path.Clean(p)
		}
		l.loads = append(l.loads, p)
		if l.failAt > 0 && len(l.loads) == l.failAt {
			l.failed = true
			if l.garbage {
				if t := l.files[p]; len(t) > 2 {
					return []byte(t[:len(t)/2]), nil
				}
				return []byte("{"), nil
			}
			return nil, fmt.Errorf("open %s: injected load fault", p)
		}
		t, ok := l.files[p]
		if !ok {
			return nil, &os.PathError{Op: "open", Path: p, Err: os.ErrNotExist}
		}
		return []byte(t), nil
	}
	memRead := func(p string) ([]byte, error) { return serve(p, false) }
	// http(s) documents are served from the same in-memory bundle, keyed by their URL: there is no network,
	// an unknown URL fails like a 404 would
	memGet := func(p string) ([]byte, error) {
		b, err := serve(p, true)
		if err != nil && errors.Is(err, os.ErrNotExist) {
			return nil, fmt.Errorf("could not access document at %q [404 Not Found]", p)
		}
		return b, err
	}
	spec.PathLoader = func(p string) (json.RawMessage, error) {
		b, err := swag.LoadStrategy(p, memRead, memGet)(p)
		if err != nil {
			return nil, err
		}
		return json.RawMessage(b), nil
	}
}

func absFiles(c *runner.Case) map[string]string {
	out := map[string]string{}
	for f, t := range c.Files {
		if strings.Contains(f, "://") { // a document hosted over http: keyed by its URL
			out[f] = t
			continue
		}
		out[path.Join(vroot, f)] = t
	}
	return out
}

func worldOf(files map[string]string, root string) (*oracle.World, error) {
	w := &oracle.World{Docs: map[string]any{}, Root: root}
	for p, t := range files {
		v, err := jx.Parse([]byte(t))
		if err != nil {
			return nil, fmt.Errorf("%s: %w", p, err)
		}
		w.Docs[p] = v
	}
	return w, nil
}

type optSet struct {
	Name                                     string
	Minimal, Expand, RemoveUnused, KeepNames bool
	Verbose                                  bool // FlattenOpts.Verbose: the reporting pass at the end of Flatten runs (its output is discarded)
	NoBase                                   bool // FlattenOpts.BasePath left empty (documented: relative references are then searched from the working directory)
}

func baseOf(o optSet, root string) string {
	if o.NoBase {
		return ""
	}
	return root
}

func parseOpt(o string) optSet {
	s := optSet{Name: o}
	for _, p := range strings.Split(o, "+") {
		switch p {
		case "min":
			s.Minimal = true
		case "expand":
			s.Expand = true
		case "ru":
			s.RemoveUnused = true
		case "keep":
			s.KeepNames = true
		case "nobase":
			s.NoBase = true
		case "verbose":
			s.Verbose = true
		}
	}
	return s
}

type flatRun struct {
	Opt       optSet
	Err       error
	Panic     *runner.PanicInfo
	Stats     runner.CallStats
	Doc       *spec.Swagger
	Spec      *analysis.Spec
	After     jx.Obj
	Bytes     []byte
	Loads     []string
	Faulted   bool
	Mutating  []string // phases after which the document differed from the previous phase
	Nodes     int
	Snapshots []phaseSnap // replay mode only: the document after each mutating phase
}

type phaseSnap struct {
	Phase string
	Doc   string
}

func (r *flatRun) OK() bool { return r.Err == nil && r.Panic == nil }

func hashDoc(doc any) string {
	b, err := json.Marshal(doc)
	if err != nil {
		return "marshal-error"
	}
	h := sha256.Sum256(b)
	return hex.EncodeToString(h[:8])
}

// runFlatten loads the root afresh, analyzes it and flattens it under the option set.
// preQuery, when set, is called on the fresh analyzer before Flatten (C10: callers do query the analyzer before they
// flatten; an answer memoised then must not survive the rewrite).
var preQuery func(sp *analysis.Spec)

func runFlatten(files map[string]string, root string, o optSet, failAt int, nodes int) *flatRun {
	return runFlattenFault(files, root, o, failAt, false, nodes)
}

func runFlattenFault(files map[string]string, root string, o optSet, failAt int, garbage bool, nodes int) *flatRun {
	r := &flatRun{Opt: o, Nodes: nodes}
	sw, err := lib.Load([]byte(files[root]))
	if err != nil {
		r.Err = fmt.Errorf("root not loadable: %w", err)
		return r
	}
	r.Doc = sw
	ld := &memLoader{files: files, failAt: failAt, garbage: garbage}
	curLoader = ld
	defer func() { curLoader = nil }()
	last := ""
	keep := os.Getenv("VERIF_DIAG") != ""
	phaseFn := func(name string, doc any) {
		h := hashDoc(doc)
		if name != "0-entry" && h != last {
			r.Mutating = append(r.Mutating, name)
			if keep {
				if b, err := json.Marshal(doc); err == nil {
					r.Snapshots = append(r.Snapshots, phaseSnap{name, string(b)})
				}
			}
		}
		last = h
	}
	r.Stats, r.Panic = runner.Call(nodes, phaseFn, func() {
		r.Spec = analysis.New(sw)
		if preQuery != nil {
			preQuery(r.Spec)
		}
		r.Err = analysis.Flatten(analysis.FlattenOpts{Spec: r.Spec, BasePath: baseOf(o, root), Minimal: o.Minimal, Expand: o.Expand, RemoveUnused: o.RemoveUnused, KeepNames: o.KeepNames, Verbose: o.Verbose})
	})
	r.Loads, r.Faulted = ld.loads, ld.failed
	if r.OK() {
		r.After, r.Bytes, err = lib.Dump(sw)
		if err != nil {
			r.Err = fmt.Errorf("result not serializable: %w", err)
		}
	}
	return r
}

// genericPath strips names and indices from a pointer-like path, keeping structural keywords only.
func genericPath(p string) string {
	var out []string
	toks := strings.Split(p, "/")
	for i, t := range toks {
		switch t {
		case "paths", "parameters", "responses", "schema", "definitions", "headers", "properties", "patternProperties", "items", "allOf", "anyOf", "oneOf", "not", "additionalProperties", "additionalItems":
			// a keyword only if the previous token is not a map keyword (then it is a key)
			if i > 0 {
				switch toks[i-1] {
				case "properties", "patternProperties", "definitions":
					if len(out) > 0 && out[len(out)-1] == toks[i-1] {
						continue
					}
				}
			}
			out = append(out, t)
		case "get", "put", "post", "delete", "options", "head", "patch":
			out = append(out, "op")
		}
	}
	return strings.Join(out, "/")
}

func modeOf(o optSet) string {
	m := "full"
	if o.Minimal {
		m = "min"
	} else if o.Expand {
		m = "expand"
	}
	return m
}

// scanRefs finds every "$ref" string in a JSON value (generic scan, used by the W validator and the cycle test).
func scanRefs(v any, at []string, f func(at []string, ref string)) {
	switch t := v.(type) {
	case jx.Obj:
		if r, ok := t["$ref"].(string); ok {
			f(at, r)
		}
		for _, k := range jx.Keys(t) {
			if k == "enum" || k == "example" || k == "examples" || k == "default" {
				continue
			}
			scanRefs(t[k], append(append([]string{}, at...), k), f)
		}
	case jx.Arr:
		for i, x := range t {
			scanRefs(x, append(append([]string{}, at...), strconv.Itoa(i)), f)
		}
	}
}

type refOcc struct {
	at  oracle.Pos
	tgt oracle.Pos
}

// validateW checks that every $ref of every document resolves; it returns the $ref graph.
func validateW(w *oracle.World) ([]refOcc, error) {
	var occs []refOcc
	var firstErr error
	docs := make([]string, 0, len(w.Docs))
	for d := range w.Docs {
		docs = append(docs, d)
	}
	sort.Strings(docs)
	for _, d := range docs {
		scanRefs(w.Docs[d], nil, func(at []string, ref string) {
			p, err := w.Resolve(d, ref)
			if err != nil {
				if firstErr == nil {
					firstErr = fmt.Errorf("%s#%s: %w", d, jx.Ptr(at), err)
				}
				return
			}
			occs = append(occs, refOcc{oracle.Pos{Doc: d, Toks: at}, p})
		})
	}
	return occs, firstErr
}

func isPrefix(pre, full []string) bool {
	if len(pre) > len(full) {
		return false
	}
	for i := range pre {
		if pre[i] != full[i] {
			return false
		}
	}
	return true
}

// hasRefCycle decides on the $ref graph of the whole bundle whether unfolding is infinite (DESIGN §5.4):
// edge r -> r' when r' lies inside the subtree r points to.
func hasRefCycle(occs []refOcc) bool {
	n := len(occs)
	adj := make([][]int, n)
	for i, r := range occs {
		for j, s := range occs {
			if s.at.Doc == r.tgt.Doc && isPrefix(r.tgt.Toks, s.at.Toks) {
				adj[i] = append(adj[i], j)
			}
		}
	}
	color := make([]int, n)
	var dfs func(i int) bool
	dfs = func(i int) bool {
		color[i] = 1
		for _, j := range adj[i] {
			if color[j] == 1 || (color[j] == 0 && dfs(j)) {
				return true
			}
		}
		color[i] = 2
		return false
	}
	for i := range occs {
		if color[i] == 0 && dfs(i) {
			return true
		}
	}
	return false
}

// The witness of the known finding D20 (a generated bundle kept as found): it is part of the systematic corpus so that
// the finding is exercised by every run of C04 and C07, not only when a random composition happens to hit it.
//
//go:embed witness_d20.json
var witnessD20 []byte

const witnesses = 1

func (flattenEngine) counts(prop, tier string) (sys, rnd int) {
	sys = gen.SysBundleCount() + witnesses
	rnd = 400
	if tier == "thorough" {
		rnd = 12000
	}
	if prop == "C07" {
		rnd /= 2
		if tier == "thorough" {
			rnd = 600
		}
	}
	return
}

func (e flattenEngine) NumCases(prop, tier string, seed uint64) int {
	s, r := e.counts(prop, tier)
	return s + r
}

func nfObj(o jx.Obj) jx.Obj {
	n, err := lib.NormalForm(jx.Canon(o))
	if err != nil {
		panic(fmt.Sprintf("generated document not loadable: %v", err))
	}
	return n
}

func (e flattenEngine) Gen(prop, tier string, seed uint64, idx int) *runner.Case {
	sys, _ := e.counts(prop, tier)
	var b *gen.Bundle
	var name string
	if idx == sys-1 {
		var w struct {
			Name  string            `json:"name"`
			Files map[string]string `json:"files"`
			Root  string            `json:"root"`
			Opts  []string          `json:"opts"`
			Tags  []string          `json:"tags"`
		}
		if err := json.Unmarshal(witnessD20, &w); err != nil {
			panic(err)
		}
		return &runner.Case{Engine: "flatten", Name: w.Name, Files: w.Files, Root: w.Root, Opts: w.Opts, Tags: w.Tags}
	}
	if idx < sys {
		b, name = gen.SysBundle(idx)
		name = "sys/" + name
	} else {
		rng := gen.NewRng(seed, idx)
		mx := 8
		if tier == "thorough" {
			mx = 12
		}
		b = gen.RndBundle(rng, mx)
		name = "rnd/" + strconv.Itoa(idx)
	}
	c := &runner.Case{Engine: "flatten", Name: name, Files: b.Files(nfObj), Root: "root.json", Opts: b.Opts(), Tags: b.TagList()}
	if len(c.Files) > 1 && idx%4 == 3 {
		relocateRoot(c)
	}
	if idx%3 == 1 {
		// every third bundle also with the reporting pass switched on (it must change nothing)
		c.Opts = append(c.Opts, "full+verbose")
		if !b.AnonShared {
			c.Opts = append(c.Opts, "min+ru+verbose")
		}
	}
	return c
}

// relocateRoot moves the root document into a sub-directory of its own: every reference of the root to
// another document then climbs with "../" (auxiliary documents of W never refer to the root, they are untouched).
func relocateRoot(c *runner.Case) {
	root := jx.MustParse([]byte(c.Files[c.Root]))
	var fix func(v any)
	fix = func(v any) {
		switch t := v.(type) {
		case jx.Obj:
			if r, ok := t["$ref"].(string); ok && r != "" && !strings.HasPrefix(r, "#") && !strings.HasPrefix(r, "/") && !strings.Contains(r, "://") {
				t["$ref"] = "../" + strings.TrimPrefix(r, "./")
			}
			for _, x := range t {
				fix(x)
			}
		case jx.Arr:
			for _, x := range t {
				fix(x)
			}
		}
	}
	fix(root)
	delete(c.Files, c.Root)
	c.Root = "api/root.json"
	c.Files[c.Root] = string(jx.Canon(nfObj(jx.AsObj(root))))
	c.Tags = append(c.Tags, "root-in-subdir")
	c.Name += "/root-in-subdir"
}

func (flattenEngine) Info(prop, tier string) runner.Info {
	base := "G-bundle W: systematic corpus (one small bundle per cell of holder x container x target, extended holders, nesting depth 2..4, name class x role x local/imported x used/unused, collision patterns, non-schema ref kinds, unused chains, several callers of one anonymous pointer: the same for every seed) " +
		"plus seeded random compositions of 3..12 such features; documents are served to the library by an in-memory spec.PathLoader; each bundle is run only under the option sets it is in W for (single-document bundles also with an empty BasePath). "
	in := runner.Info{Level: "exploration", MaxEventKeys: []string{"max_loop_iterations", "max_schema_depth"},
		Assumptions: []string{"spec.Swagger Unmarshal/Marshal defines the normal form", "encoding/json", "own $ref resolver (RFC 3986 relative file refs + RFC 6901) and bisimulation, self-tested by a W validator on every bundle", "hooks H1/H2/H3 behind the verif tag"},
		AllCells:    gen.AllBundleCells(), MinSuccessPct: 90}
	switch prop {
	case "C01":
		in.Rule = base + "Oracle: bisimulation of the $ref-unfolded input bundle and output document (paths, operations, parameters, responses, headers, definitions by name; marker only on new definitions). non-trivial = Flatten returned nil, changed the document, and $refs were followed on both sides; distinct = SHA-256 of bundle."
	case "C02":
		in.Rule = base + "Minimal/full option sets only. Oracle: independent walk of the output: no $ref in parameters, responses, path items or simple-schema items; every schema $ref decodes to exactly ['definitions', name] with name present. non-trivial = the input had a remote ref, an anonymous pointer or a non-schema ref."
	case "C03":
		in.Rule = base + "full option sets only. Oracle: no inline schema with properties / allOf / tuple items outside definition bodies (own statement of the rule, not isAnalyzedAsComplex); new definition names never equal (under case folding) an existing or another new name; existing definitions keep their meaning (bisimulation). non-trivial = at least one definition was created."
	case "C04":
		in.MinSuccessPct = 0
		in.Rule = base + "Oracle: Flatten must return nil (no error, panic, fatal error, loop/recursion budget overrun) for every bundle of W under every applicable option set. non-trivial = the call went through at least two mutating phases (hook H2)."
	case "C05":
		in.Rule = base + "Expand option sets only (no anonymous pointers). Oracle: remaining $refs all decode to an existing top-level definition; meaning preserved (bisimulation); for bundles without reference cycle (decided on the input's $ref graph): no $ref left and byte-identical output across repeats and key-order permutations. non-trivial = Expand returned nil and the input had at least one $ref."
	case "C06":
		in.Rule = base + "RemoveUnused option sets only. Oracle: shared parameters/responses empty; every remaining definition is the (decoded) target of some $ref of the output; no $ref dangles; operations unchanged in meaning; removal loop within its iteration budget (H1). non-trivial = a definition was removed or a hostile-named definition is present."
	case "C07":
		in.Rule = base + "Oracle: bytes of json.Marshal(document) across R fresh repeats x P key-order permutations of every file (quick P=3,R=4 under three representative option sets; thorough P=5,R=6 under every applicable option set); Expand only for bundles without reference cycle. non-trivial = Flatten changed the document and an unsorted getter returned at least two different orders across the runs (map orders really varied)."
	case "C08":
		in.Rule = base + "Minimal/full option sets. Oracle: flatten the output again (a) reloaded from its bytes (b) on the same object with the same analyzer: must succeed with byte-identical result. non-trivial = the first pass changed the document."
	case "C10":
		in.Rule = base + "Oracle: every public getter of the passed-in Spec, over its full argument domain derived from the output document, answers like analysis.New(output document). non-trivial = Flatten changed the document; evidence lists the last mutating phase of each case."
	}
	return in
}

func applicable(prop string, opts []string) []string {
	var out []string
	for _, o := range opts {
		s := parseOpt(o)
		switch prop {
		case "C02", "C08":
			if s.Expand {
				continue
			}
		case "C03":
			if s.Expand || s.Minimal {
				continue
			}
		case "C05":
			if !s.Expand {
				continue
			}
		case "C06":
			if !s.RemoveUnused {
				continue
			}
		}
		out = append(out, o)
	}
	return out
}

func (e flattenEngine) Check(prop, tier string, c *runner.Case) *runner.Result {
	res := &runner.Result{}
	files := absFiles(c)
	root := path.Join(vroot, c.Root)
	before, err := worldOf(files, root)
	if err != nil {
		res.Inconclusive = append(res.Inconclusive, "bundle does not parse: "+err.Error())
		return res
	}
	occs, verr := validateW(before)
	if verr != nil {
		res.Inconclusive = append(res.Inconclusive, "generator produced a bundle outside W (unresolvable $ref): "+verr.Error())
		return res
	}
	res.Ev("w_validator_refs_resolved", len(occs))
	cyclic := hasRefCycle(occs)
	tagged := false
	for _, t := range c.Tags {
		if t == "cycle" {
			tagged = true
		}
		if strings.HasPrefix(t, "cell:") {
			res.Cell(t)
		}
	}
	if tagged && !cyclic {
		res.Inconclusive = append(res.Inconclusive, "cycle test disagrees with the generator's ground truth")
		return res
	}
	if cyclic {
		res.Ev("bundles_with_cycle", 1)
	}
	nodes := 0
	for _, d := range before.Docs {
		nodes += jx.CountNodes(d)
	}
	opts := applicable(prop, c.Opts)
	preQuery = nil
	if (prop == "C10" || prop == "CALL") && len(c.Name)%2 == 0 {
		// every second bundle: all getters are queried once on the analyzer before it is handed to Flatten
		dom := DomainOf(jx.AsObj(before.Docs[root]))
		gs := GetterList(dom)
		preQuery = func(sp *analysis.Spec) {
			for _, g := range gs {
				_ = Answer(g, sp)
			}
		}
		res.Ev("bundles_queried_before_flatten", 1)
		defer func() { preQuery = nil }()
	}
	if prop == "C07" && tier != "thorough" {
		// quick tier: three representative option sets per bundle (bundle shape matters more than the option set here)
		var sel []string
		has := func(o string) bool {
			for _, x := range opts {
				if x == o {
					return true
				}
			}
			return false
		}
		for _, pref := range [][]string{{"min"}, {"full+ru", "full"}, {"expand+ru", "expand"}} {
			for _, o := range pref {
				if has(o) {
					sel = append(sel, o)
					break
				}
			}
		}
		opts = sel
	}
	for _, o := range opts {
		os_ := parseOpt(o)
		if prop == "C07" {
			e.c07(res, c, files, root, os_, nodes, cyclic, tier)
			continue
		}
		run := runFlatten(files, root, os_, 0, nodes)
		res.Evals++
		res.Ev("calls", 1)
		res.Ev("calls:"+o, 1)
		for site, n := range run.Stats.Loops {
			res.EvMax("max_loop_iterations", n)
			res.EvMax("max_loop:"+site, n)
			res.Ev("loop_iterations:"+site, n)
		}
		res.EvMax("max_schema_depth", run.Stats.MaxDepth)
		if !run.Stats.HooksHit {
			res.Ev("hooks_unreached", 1)
		}
		res.Set("phase_signatures", modeOf(os_)+":"+strings.Join(run.Mutating, ","))
		if prop == "C04" && run.OK() && os_.Expand && cyclic {
			// C07 leaves Expand on cyclic bundles out (reproducibility is not promised there); success is promised,
			// and failures of this kind have been seen to depend on map iteration order: repeat
			for i := 0; i < 12 && run.OK(); i++ {
				run = runFlatten(files, root, os_, 0, nodes)
				res.Evals++
				res.Ev("expand_cyclic_repeats", 1)
			}
		}
		if prop == "CALL" {
			// development aid (mutation screening, not a MANIFEST check): every oracle of C01..C10 except C07 on one run
			e.call(res, c, files, root, before, run, o, os_, cyclic, len(occs), nodes, tier)
			continue
		}
		if !run.OK() {
			if prop == "C04" {
				e.c04fail(res, run, o)
			} else {
				res.Ev("unsuccessful_calls", 1)
			}
			continue
		}
		res.Ev("ok_calls", 1)
		res.Ev("document_loads", len(run.Loads))
		afterFiles := map[string]string{}
		for k, v := range files {
			afterFiles[k] = v
		}
		afterFiles[root] = string(run.Bytes)
		after, err := worldOf(afterFiles, root)
		if err != nil {
			res.Violate("unserializable", "unserializable", o, err.Error())
			continue
		}
		changed := string(jx.Canon(before.Docs[root])) != string(jx.Canon(run.After))
		switch prop {
		case "C04":
			if len(run.Mutating) >= 2 {
				res.Nontrivial = true
			}
		case "C01":
			nv := len(res.Violations)
			e.c01(res, before, after, os_, changed)
			if len(res.Violations) > nv && len(run.Snapshots) > 0 {
				// diagnostic only (replay mode): the first phase after which the relation no longer holds
				for _, sn := range run.Snapshots {
					ff := map[string]string{}
					for k, v := range files {
						ff[k] = v
					}
					ff[root] = sn.Doc
					if w2, err := worldOf(ff, root); err == nil {
						d := oracle.NewAPIDiff(before, w2)
						d.Compare(os_.RemoveUnused)
						if len(d.Mismatches) > 0 {
							m := d.Mismatches[0]
							res.Violations[nv].Detail += fmt.Sprintf("\n[diagnostic] first phase after which the document no longer means the same: %s (%s at %s)", sn.Phase, m.Kind, m.Path)
							break
						}
					}
				}
			}
		case "C02":
			e.c02(res, c, after, os_)
		case "C03":
			e.c03(res, before, after, os_)
		case "C05":
			e.c05(res, c, files, root, before, after, run, os_, cyclic, len(occs), nodes, tier)
		case "C06":
			e.c06(res, c, before, after, run, os_)
		case "C08":
			e.c08(res, files, root, run, os_, nodes, changed)
		case "C10":
			e.c10(res, run, os_, changed)
		}
	}
	return res
}

// call applies the oracles of every flatten property the option set is in scope of; signatures are prefixed by the property.
func (e flattenEngine) call(res *runner.Result, c *runner.Case, files map[string]string, root string, before *oracle.World, run *flatRun, o string, os_ optSet, cyclic bool, nocc, nodes int, tier string) {
	in := func(prop string) bool { return len(applicable(prop, []string{o})) == 1 }
	mark := func(prop string, f func()) {
		n := len(res.Violations)
		f()
		for i := n; i < len(res.Violations); i++ {
			res.Violations[i].Sig = prop + "|" + res.Violations[i].Sig
		}
	}
	res.Nontrivial = true
	if !run.OK() {
		mark("C04", func() { e.c04fail(res, run, o) })
		return
	}
	afterFiles := map[string]string{}
	for k, v := range files {
		afterFiles[k] = v
	}
	afterFiles[root] = string(run.Bytes)
	after, err := worldOf(afterFiles, root)
	if err != nil {
		res.Violate("unserializable", "C01|unserializable", o, err.Error())
		return
	}
	changed := string(jx.Canon(before.Docs[root])) != string(jx.Canon(run.After))
	mark("C01", func() { e.c01(res, before, after, os_, changed) })
	if in("C02") {
		mark("C02", func() { e.c02(res, c, after, os_) })
	}
	if in("C03") {
		mark("C03", func() { e.c03(res, before, after, os_) })
	}
	if in("C05") {
		mark("C05", func() { e.c05(res, c, files, root, before, after, run, os_, cyclic, nocc, nodes, tier) })
	}
	if in("C06") {
		mark("C06", func() { e.c06(res, c, before, after, run, os_) })
	}
	if in("C08") {
		mark("C08", func() { e.c08(res, files, root, run, os_, nodes, changed) })
	}
	mark("C10", func() { e.c10(res, run, os_, changed) })
}

func (flattenEngine) c04fail(res *runner.Result, run *flatRun, o string) {
	mode := modeOf(run.Opt)
	switch {
	case run.Panic != nil && run.Panic.Budget != nil:
		res.Violate("non-termination", "non-termination:"+run.Panic.Site(), o, run.Panic.Msg)
	case run.Panic != nil:
		res.Violate("panic", "panic:"+run.Panic.Site()+":"+runner.MsgClass(run.Panic.Msg), o, "Flatten panicked: "+run.Panic.Msg+"\n"+run.Panic.Stack)
	default:
		sig := "flatten-error:" + mode + ":" + runner.MsgClass(run.Err.Error())
		if strings.Contains(run.Err.Error(), "OAIGen") {
			sig += ":oaigen" // the failing key or name belongs to a deduplicated (OAIGen) definition
		}
		res.Violate("flatten-error", sig, o, "Flatten rejected a well-formed bundle: "+run.Err.Error())
	}
}

func (flattenEngine) c01(res *runner.Result, before, after *oracle.World, o optSet, changed bool) {
	d := oracle.NewAPIDiff(before, after)
	d.Compare(o.RemoveUnused)
	for k, n := range d.Stats {
		res.Ev(k, n)
	}
	seen := map[string]bool{}
	for _, m := range d.Mismatches {
		sig := m.Kind + ":" + modeOf(o) + ":" + genericPath(m.Path)
		if seen[sig] {
			continue
		}
		seen[sig] = true
		res.Violate(m.Kind, sig, o.Name, fmt.Sprintf("at %s: %s", m.Path, m.Detail))
	}
	if changed && d.Stats["refs_followed_before"] > 0 && (d.Stats["refs_followed_after"] > 0 || o.Expand) {
		res.Nontrivial = true
	}
}

// canonicalRefs checks the remaining $refs of an output document (C02 / C05 / C06).
func canonicalRefs(res *runner.Result, after *oracle.World, o optSet, allowNonSchema bool) (schemaRefs int) {
	doc := jx.AsObj(after.Docs[after.Root])
	defs := jx.AsObj(doc["definitions"])
	w := oracle.WalkDoc(doc)
	for _, r := range w.Refs {
		where := r.Kind + "/" + r.Container
		if r.Kind != "schema" {
			if !allowNonSchema {
				res.Violate("nonschema-ref-left", "nonschema-ref-left:"+modeOf(o)+":"+where, o.Name, fmt.Sprintf("%s still holds $ref %q", jx.Ptr(r.Ptr), r.Ref))
			}
			continue
		}
		schemaRefs++
		where += "/" + r.Holder
		file, toks, err := jx.SplitRef(r.Ref)
		switch {
		case err != nil:
			res.Violate("malformed-ref", "malformed-ref:"+modeOf(o), o.Name, fmt.Sprintf("%s: %q: %v", jx.Ptr(r.Ptr), r.Ref, err))
		case file != "":
			res.Violate("remote-ref-left", "remote-ref-left:"+modeOf(o)+":"+where, o.Name, fmt.Sprintf("%s still points to another document: %q", jx.Ptr(r.Ptr), r.Ref))
		case len(toks) != 2 || toks[0] != "definitions":
			res.Violate("anonymous-pointer-left", "anonymous-pointer-left:"+modeOf(o)+":"+where, o.Name, fmt.Sprintf("%s: %q is not of the form #/definitions/<name>", jx.Ptr(r.Ptr), r.Ref))
		default:
			if _, ok := defs[toks[1]]; !ok {
				res.Violate("dangling-ref", "dangling-ref:"+modeOf(o)+":"+where, o.Name, fmt.Sprintf("%s: %q: no definition named %q in the output", jx.Ptr(r.Ptr), r.Ref, toks[1]))
			}
		}
	}
	// path items under paths: a $ref there is reported by the walker as kind pathitem; nothing else to do
	return
}

func hasTag(c *runner.Case, prefix string) bool {
	for _, t := range c.Tags {
		if strings.HasPrefix(t, prefix) {
			return true
		}
	}
	return false
}

func (flattenEngine) c02(res *runner.Result, c *runner.Case, after *oracle.World, o optSet) {
	n := canonicalRefs(res, after, o, false)
	res.Ev("schema_refs_checked", n)
	if hasTag(c, "multi-doc") || hasTag(c, "nonschema:") || hasTag(c, "target:anon") {
		res.Nontrivial = true
	}
}

func isComplexInline(s jx.Obj) string {
	if _, isRef := s["$ref"]; isRef {
		return ""
	}
	if len(jx.AsObj(s["properties"])) > 0 {
		return "object-with-properties"
	}
	if len(jx.AsArr(s["allOf"])) > 0 {
		return "allOf"
	}
	if it, ok := s["items"].(jx.Arr); ok && len(it) > 0 {
		return "tuple"
	}
	return ""
}

func (flattenEngine) c03(res *runner.Result, before, after *oracle.World, o optSet) {
	br, ar := jx.AsObj(before.Docs[before.Root]), jx.AsObj(after.Docs[after.Root])
	w := oracle.WalkDoc(ar)
	for _, s := range w.Schemas {
		if s.TopLevel {
			continue
		}
		if k := isComplexInline(s.Node); k != "" {
			res.Violate("inline-complex-left", "inline-complex-left:"+k+":"+s.Container+":"+genericPath(jx.Ptr(s.Ptr)), o.Name, fmt.Sprintf("%s is still an inline %s after full flattening", jx.Ptr(s.Ptr), k))
		}
	}
	res.Ev("schema_positions_scanned", len(w.Schemas))
	db, da := jx.AsObj(br["definitions"]), jx.AsObj(ar["definitions"])
	var names []string
	for k := range da {
		names = append(names, k)
	}
	sort.Strings(names)
	created := 0
	for i, a := range names {
		_, oldA := db[a]
		if !oldA {
			created++
		}
		for _, b := range names[i+1:] {
			_, oldB := db[b]
			if strings.EqualFold(a, b) && !(oldA && oldB) {
				res.Violate("name-collision", "name-collision", o.Name, fmt.Sprintf("definitions %q and %q are equal up to letter case and not both pre-existing", a, b))
			}
		}
	}
	// an existing definition is never overwritten: it keeps its meaning
	bs := oracle.NewBisim(before, after)
	for k := range da {
		if _, existed := db[k]; !existed {
			bs.IgnoreMarkerAt[oracle.Pos{Doc: after.Root, Toks: []string{"definitions", k}}.String()] = true
		}
	}
	for _, k := range jx.Keys(db) {
		if _, ok := da[k]; !ok {
			continue
		}
		if m := bs.Eq(oracle.Pos{Doc: before.Root, Toks: []string{"definitions", k}}, oracle.Pos{Doc: after.Root, Toks: []string{"definitions", k}}); m != nil {
			res.Violate("definition-overwritten", "definition-overwritten:"+m.Kind, o.Name, fmt.Sprintf("definition %q changed meaning: %s at %s: %s", k, m.Kind, m.Path, m.Detail))
		}
	}
	res.Ev("definitions_created", created)
	if created > 0 {
		res.Nontrivial = true
	}
}

func permutedFiles(files map[string]string, seed uint64, k int) map[string]string {
	out := map[string]string{}
	names := make([]string, 0, len(files))
	for n := range files {
		names = append(names, n)
	}
	sort.Strings(names)
	for i, n := range names {
		rng := gen.NewRng(seed*31+uint64(k), i)
		out[n] = string(jx.Render(jx.MustParse([]byte(files[n])), rng))
	}
	return out
}

func caseSeed(c *runner.Case) uint64 {
	h := sha256.Sum256([]byte(c.Files[c.Root]))
	return uint64(h[0])<<24 | uint64(h[1])<<16 | uint64(h[2])<<8 | uint64(h[3])
}

func (e flattenEngine) c05(res *runner.Result, c *runner.Case, files map[string]string, root string, before, after *oracle.World, run *flatRun, o optSet, cyclic bool, nrefs, nodes int, tier string) {
	left := canonicalRefs(res, after, o, false)
	res.Ev("refs_left_after_expand", left)
	e.c01(res, before, after, o, true)
	res.Nontrivial = nrefs > 0
	if cyclic {
		res.Ev("expand_cyclic_cases", 1)
		return
	}
	res.Ev("expand_acyclic_cases", 1)
	if left > 0 {
		res.Violate("ref-left-acyclic", "ref-left-acyclic", o.Name, fmt.Sprintf("the bundle has no reference cycle but %d $ref remain after Expand", left))
	}
	rep, perms := 3, 3
	if tier == "thorough" {
		rep, perms = 11, 6
	}
	ref := canonBytes(run.Bytes)
	for k := 0; k <= perms; k++ {
		fs := files
		if k > 0 {
			fs = permutedFiles(files, caseSeed(c), k)
		}
		n := rep
		if k > 0 {
			n = 1
		}
		for i := 0; i < n; i++ {
			r2 := runFlatten(fs, root, o, 0, nodes)
			res.Evals++
			if !r2.OK() {
				res.Violate("not-reproducible", "not-reproducible:error", o.Name, fmt.Sprintf("a repeat (permutation %d) failed although the first run succeeded: %v %v", k, r2.Err, r2.Panic))
				return
			}
			if canonBytes(r2.Bytes) != ref {
				res.Violate("not-reproducible", "not-reproducible:bytes", o.Name, fmt.Sprintf("repeat %d of permutation %d yields different bytes: %s", i, k, firstDiff(run.After, r2.After)))
				return
			}
		}
	}
}

// canonBytes: the output bytes as they are (json.Marshal of the document is already key-sorted for maps).
func canonBytes(b []byte) string { return string(b) }

func firstDiff(a, b jx.Obj) string {
	d, _ := jx.Diff(a, b)
	return d
}

func (e flattenEngine) c06(res *runner.Result, c *runner.Case, before, after *oracle.World, run *flatRun, o optSet) {
	ar := jx.AsObj(after.Docs[after.Root])
	br := jx.AsObj(before.Docs[before.Root])
	for _, sec := range []string{"parameters", "responses"} {
		if s := jx.AsObj(ar[sec]); len(s) > 0 {
			res.Violate("shared-section-left", "shared-section-left:"+sec, o.Name, fmt.Sprintf("%d shared %s remain after RemoveUnused", len(s), sec))
		}
	}
	allowNonSchema := o.Expand // not this property's business in Expand mode either way
	canonicalRefsDanglingOnly(res, after, o)
	_ = allowNonSchema
	// every remaining definition is the decoded target of at least one $ref of the document
	used := map[string]bool{}
	w := oracle.WalkDoc(ar)
	for _, r := range w.Refs {
		if r.Kind != "schema" {
			continue
		}
		if file, toks, err := jx.SplitRef(r.Ref); err == nil && file == "" && len(toks) >= 2 && toks[0] == "definitions" {
			used[toks[1]] = true
		}
	}
	da, db := jx.AsObj(ar["definitions"]), jx.AsObj(br["definitions"])
	hostile := false
	for k := range da {
		if !used[k] {
			res.Violate("unused-definition-left", "unused-definition-left:"+nameClass(k), o.Name, fmt.Sprintf("definition %q is not referred to by any $ref of the output", k))
		}
		if nameClass(k) != "ident" {
			hostile = true
		}
	}
	removed := 0
	for k := range db {
		if _, ok := da[k]; !ok {
			removed++
		}
	}
	res.Ev("definitions_removed", removed)
	res.EvMax("max_loop_iterations", run.Stats.Loops["removeUnused"])
	// operations still mean the same
	d := oracle.NewAPIDiff(before, after)
	d.Compare(true)
	seen := map[string]bool{}
	for _, m := range d.Mismatches {
		sig := "meaning:" + m.Kind + ":" + modeOf(o) + ":" + genericPath(m.Path)
		if !seen[sig] {
			seen[sig] = true
			res.Violate(m.Kind, sig, o.Name, fmt.Sprintf("at %s: %s", m.Path, m.Detail))
		}
	}
	if removed > 0 || hostile {
		res.Nontrivial = true
	}
}

func canonicalRefsDanglingOnly(res *runner.Result, after *oracle.World, o optSet) {
	doc := jx.AsObj(after.Docs[after.Root])
	defs := jx.AsObj(doc["definitions"])
	for _, r := range oracle.WalkDoc(doc).Refs {
		if r.Kind != "schema" {
			continue
		}
		file, toks, err := jx.SplitRef(r.Ref)
		if err != nil || file != "" {
			continue // C02 reports those
		}
		if len(toks) >= 2 && toks[0] == "definitions" {
			if _, ok := defs[toks[1]]; !ok {
				res.Violate("dangling-ref", "dangling-ref:"+modeOf(o)+":"+nameClass(toks[1]), o.Name, fmt.Sprintf("%s: %q: definition %q was removed although it is referred to", jx.Ptr(r.Ptr), r.Ref, toks[1]))
			}
		}
	}
}

func nameClass(n string) string {
	switch {
	case strings.ContainsAny(n, "/"):
		return "slash"
	case strings.ContainsAny(n, "~"):
		return "tilde"
	case strings.ContainsAny(n, " "):
		return "space"
	case strings.ContainsAny(n, "{}"):
		return "brace"
	case strings.ContainsAny(n, "[]"):
		return "bracket"
	case strings.ContainsAny(n, "?"):
		return "qmark"
	case strings.ContainsAny(n, "#"):
		return "hash"
	}
	for _, r := range n {
		if r > 127 {
			return "unicode"
		}
	}
	return "ident"
}

func (e flattenEngine) c07(res *runner.Result, c *runner.Case, files map[string]string, root string, o optSet, nodes int, cyclic bool, tier string) {
	if o.Expand && cyclic {
		return
	}
	P, R := 3, 4
	if tier == "thorough" {
		P, R = 5, 6
	}
	if c.Name == "witness/D20" {
		// the witness of a known, order-dependent finding: enough repeats for both outcomes to show in (almost) every run
		R = 30
	}
	var ref string
	var refDoc jx.Obj
	orders := map[string]bool{}
	okRuns := 0
	changed := false
	failClass := ""
	classOf := func(run *flatRun) string {
		msg := ""
		if run.Err != nil {
			msg = run.Err.Error()
		} else if run.Panic != nil {
			msg = "panic: " + run.Panic.Msg
		}
		c := runner.MsgClass(msg)
		if strings.Contains(msg, "OAIGen") {
			c += ":oaigen"
		}
		return c
	}
	for k := 0; k < P; k++ {
		fs := files
		if k > 0 {
			fs = permutedFiles(files, caseSeed(c), k)
		}
		for i := 0; i < R; i++ {
			run := runFlatten(fs, root, o, 0, nodes)
			res.Evals++
			res.Ev("calls", 1)
			if !run.OK() {
				res.Ev("unsuccessful_calls", 1)
				if okRuns > 0 {
					res.Violate("nondeterministic", "nondeterministic:error-vs-success:"+modeOf(o)+":"+classOf(run), o.Name, fmt.Sprintf("permutation %d repeat %d fails although an earlier run of the same bundle succeeded: %v %v", k, i, run.Err, run.Panic))
					return
				}
				failClass = classOf(run)
				continue
			}
			res.Ev("ok_calls", 1)
			if okRuns == 0 && (k > 0 || i > 0) {
				res.Violate("nondeterministic", "nondeterministic:error-vs-success:"+modeOf(o)+":"+failClass, o.Name, "an earlier run of the same bundle failed ("+failClass+"), this one succeeds")
				return
			}
			okRuns++
			orders[strings.Join(run.Spec.AllDefinitionReferences(), "|")] = true
			if ref == "" {
				ref, refDoc = string(run.Bytes), run.After
				changed = string(run.Bytes) != string(jx.Canon(nfObj(jx.AsObj(jx.MustParse([]byte(files[root]))))))
				continue
			}
			if string(run.Bytes) != ref {
				res.Violate("nondeterministic", "nondeterministic:bytes:"+modeOf(o), o.Name, fmt.Sprintf("permutation %d repeat %d yields different bytes; first difference at %s", k, i, firstDiff(refDoc, run.After)))
				return
			}
		}
	}
	res.EvMax("max_distinct_getter_orders", len(orders))
	if len(orders) > 1 {
		res.Ev("option_sets_with_varied_map_order", 1)
		if changed {
			res.Nontrivial = true
		}
	}
}

func (e flattenEngine) c08(res *runner.Result, files map[string]string, root string, run *flatRun, o optSet, nodes int, changed bool) {
	// (a) reload from bytes
	f2 := map[string]string{}
	for k, v := range files {
		f2[k] = v
	}
	f2[root] = string(run.Bytes)
	r2 := runFlatten(f2, root, o, 0, nodes)
	res.Evals++
	switch {
	case r2.Panic != nil:
		res.Violate("second-pass-fails", "second-pass-panic:"+r2.Panic.Site(), o.Name, "flattening the flattened document again (reloaded) panics: "+r2.Panic.Msg)
	case r2.Err != nil:
		res.Violate("second-pass-fails", "second-pass-error:"+modeOf(o)+":"+runner.MsgClass(r2.Err.Error()), o.Name, "flattening the flattened document again (reloaded) fails: "+r2.Err.Error())
	case string(r2.Bytes) != string(run.Bytes):
		res.Violate("not-idempotent", "not-idempotent:reloaded:"+modeOf(o)+":"+genericPath(firstDiff(run.After, r2.After)), o.Name, "second pass (reloaded) changes the document at "+firstDiff(run.After, r2.After))
	}
	// (b) same object, same analyzer
	var err error
	ld := &memLoader{files: files}
	curLoader = ld
	_, pi := runner.Call(nodes, nil, func() {
		err = analysis.Flatten(analysis.FlattenOpts{Spec: run.Spec, BasePath: baseOf(o, root), Minimal: o.Minimal, Expand: o.Expand, RemoveUnused: o.RemoveUnused, KeepNames: o.KeepNames, Verbose: o.Verbose})
	})
	curLoader = nil
	res.Evals++
	switch {
	case pi != nil:
		res.Violate("second-pass-fails", "second-pass-panic:same-object:"+pi.Site(), o.Name, "flattening again with the same analyzer panics: "+pi.Msg)
	case err != nil:
		res.Violate("second-pass-fails", "second-pass-error:same-object:"+modeOf(o)+":"+runner.MsgClass(err.Error()), o.Name, "flattening again with the same analyzer fails: "+err.Error())
	default:
		a2, b2, _ := lib.Dump(run.Doc)
		if string(b2) != string(run.Bytes) {
			res.Violate("not-idempotent", "not-idempotent:same-object:"+modeOf(o)+":"+genericPath(firstDiff(run.After, a2)), o.Name, "second pass (same object) changes the document at "+firstDiff(run.After, a2))
		}
	}
	if changed {
		res.Nontrivial = true
	}
}

func (e flattenEngine) c10(res *runner.Result, run *flatRun, o optSet, changed bool) {
	fresh := analysis.New(run.Doc)
	dom := DomainOf(run.After)
	// a query by operation id has no single answer when several operations carry that id
	// (the analyzer keeps whichever it met last): such ids are left out of the domain
	count := map[string]int{}
	for _, id := range oracle.OpIDs(run.After) {
		count[id]++
	}
	ids := dom.IDs[:0:0]
	for _, id := range dom.IDs {
		if count[id] <= 1 {
			ids = append(ids, id)
		} else {
			res.Ev("ambiguous_ids_left_out", 1)
		}
	}
	dom.IDs = ids
	gs := GetterList(dom)
	for _, g := range gs {
		a, b := Answer(g, run.Spec), Answer(g, fresh)
		res.Evals++
		if a != b {
			last := "none"
			if len(run.Mutating) > 0 {
				last = run.Mutating[len(run.Mutating)-1]
			}
			res.Violate("stale-analyzer", "stale-analyzer:"+baseName(g.Name)+":"+modeOf(o), o.Name, fmt.Sprintf("%s: the analyzer passed to Flatten answers %.300s, a fresh analysis answers %.300s (last mutating phase: %s)", g.Name, a, b, last))
			break
		}
	}
	last := "none"
	if len(run.Mutating) > 0 {
		last = run.Mutating[len(run.Mutating)-1]
	}
	res.Ev("last_mutating_phase:"+last, 1)
	if changed {
		res.Nontrivial = true
	}
}
