package engines

import (
	"encoding/json"
	"fmt"
	"os"
	"path"

	"verif/harness/jx"
	"verif/harness/runner"
)

// DebugFlatten prints the result of flattening a case file under one option set (development aid).
func DebugFlatten(caseFile, opt string) {
	b, err := os.ReadFile(caseFile)
	if err != nil {
		fmt.Println(err)
		return
	}
	var c runner.Case
	if err := json.Unmarshal(b, &c); err != nil {
		fmt.Println(err)
		return
	}
	files := absFiles(&c)
	root := path.Join(vroot, c.Root)
	run := runFlatten(files, root, parseOpt(opt), 0, 100000)
	fmt.Println("err:", run.Err, "panic:", run.Panic != nil, "mutating:", run.Mutating, "loads:", run.Loads)
	if run.Panic != nil {
		fmt.Println(run.Panic.Msg, "\n", run.Panic.Stack)
	}
	if run.After != nil {
		fmt.Println(string(jx.Render(run.After, nil)))
	}
}
