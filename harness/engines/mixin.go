package engines

import (
	"fmt"
	"math/rand/v2"
	"regexp"
	"sort"
	"strconv"
	"strings"

	"github.com/go-openapi/analysis"
	"github.com/go-openapi/spec"

	"verif/harness/gen"
	"verif/harness/jx"
	"verif/harness/lib"
	"verif/harness/oracle"
	"verif/harness/runner"
)

func init() { runner.Register("mixin", mixinEngine{}, "C17", "C18") }

type mixinEngine struct{}

var mixSections = []string{"paths", "definitions", "parameters", "responses", "securityDefinitions", "tags", "security", "ext:top", "ext:info", "ext:contact", "ext:license"}
var mixPatterns = []string{"disjoint", "one", "several"}

const (
	mixPresence = 4096
	mixOverlap  = 11 * 3 * 3 * 2
	mixIDs      = 7 * 2 * 5
)

func (mixinEngine) rnd(tier string) int {
	if tier == "thorough" {
		return 150000
	}
	return 3000
}

func (e mixinEngine) NumCases(prop, tier string, seed uint64) int {
	return mixPresence + mixOverlap + mixIDs + e.rnd(tier)
}

func richDoc(di int, present [6]bool) jx.Obj {
	s := strconv.Itoa(di)
	d := jx.Obj{"swagger": "2.0"}
	if present[0] {
		info := jx.Obj{"title": "title" + s, "version": "v" + s, "description": "desc" + s, "x-info": "i" + s, "x-Info-Owner": "o" + s}
		if di == 0 {
			delete(info, "description") // an empty scalar to be filled
		}
		if present[1] {
			info["contact"] = jx.Obj{"name": "c" + s, "x-c": s}
			if di > 0 {
				jx.AsObj(info["contact"])["email"] = "e" + s + "@x"
			}
		}
		if present[2] {
			info["license"] = jx.Obj{"name": "l" + s, "x-l": s}
			if di > 0 {
				jx.AsObj(info["license"])["url"] = "http://l" + s
			}
		}
		d["info"] = info
	}
	if present[3] {
		d["externalDocs"] = jx.Obj{"url": "http://docs" + s}
		if di > 0 {
			jx.AsObj(d["externalDocs"])["description"] = "docs" + s
		}
	}
	if present[4] {
		d["paths"] = jx.Obj{"/shared": jx.Obj{"get": jx.Obj{"description": "doc" + s, "responses": jx.Obj{"200": jx.Obj{"description": "ok"}}}},
			"/only" + s: jx.Obj{"post": jx.Obj{"operationId": "id" + s, "responses": jx.Obj{"200": jx.Obj{"description": "ok"}}}}}
	}
	if present[5] {
		d["x-shared"] = "doc" + s
		d["x-Shared-ID"] = "doc" + s
		d["x-only"+s] = true
	}
	return d
}

func keyedEntry(section, key string, di int) (string, any) {
	s := strconv.Itoa(di)
	switch section {
	case "paths":
		return "/" + key, jx.Obj{"get": jx.Obj{"description": "doc" + s, "responses": jx.Obj{"200": jx.Obj{"description": "ok"}}}}
	case "definitions":
		return key, jx.Obj{"type": "string", "description": "doc" + s}
	case "parameters":
		return key, jx.Obj{"name": key, "in": "query", "type": "string", "description": "doc" + s}
	case "responses":
		return key, jx.Obj{"description": "doc" + s}
	case "securityDefinitions":
		return key, jx.Obj{"type": "apiKey", "in": "header", "name": "doc" + s}
	}
	return key, nil
}

// putKeys plants the given keys of one section into a document.
func putKeys(d jx.Obj, section string, keys []string, di int) {
	s := strconv.Itoa(di)
	switch section {
	case "tags":
		var l jx.Arr
		for _, k := range keys {
			l = append(l, jx.Obj{"name": k, "description": "doc" + s})
		}
		d["tags"] = l
	case "security":
		var l jx.Arr
		for _, k := range keys {
			l = append(l, jx.Obj{k: jx.Arr{"scope"}})
		}
		d["security"] = l
	case "ext:top":
		for _, k := range keys {
			d["x-Key-"+k] = "doc" + s
		}
	case "ext:info", "ext:contact", "ext:license":
		info := jx.AsObj(d["info"])
		if info == nil {
			info = jx.Obj{"title": "t" + s}
			d["info"] = info
		}
		tgt := info
		if section != "ext:info" {
			part := strings.TrimPrefix(section, "ext:")
			tgt = jx.Obj{"name": "n" + s}
			info[part] = tgt
		}
		for _, k := range keys {
			tgt["x-Key-"+k] = "doc" + s
		}
	default:
		m := jx.Obj{}
		for _, k := range keys {
			kk, v := keyedEntry(section, k, di)
			m[kk] = v
		}
		d[section] = m
	}
}

var mediaPool = []string{"application/json", "text/plain", "application/xml"}

func rndMixDoc(rng *rand.Rand, di int) jx.Obj {
	s := strconv.Itoa(di)
	var pres [6]bool
	for i := range pres {
		pres[i] = gen.Chance(rng, 60)
	}
	d := jx.Obj{"swagger": "2.0"}
	if gen.Chance(rng, 50) {
		d["host"] = "host" + s
	}
	if gen.Chance(rng, 50) {
		d["basePath"] = "/base" + s
	}
	extKeys := func(o jx.Obj) {
		for _, k := range []string{"x-a", "x-B-Mixed", "x-c", "X-Upper"} {
			if gen.Chance(rng, 40) {
				o[k] = "doc" + s
			}
		}
	}
	if pres[0] {
		info := jx.Obj{}
		for _, k := range []string{"title", "version", "description", "termsOfService"} {
			if gen.Chance(rng, 50) {
				info[k] = k + s
			}
		}
		if pres[5] {
			extKeys(info)
		}
		if pres[1] {
			c := jx.Obj{}
			for _, k := range []string{"name", "url", "email"} {
				if gen.Chance(rng, 50) {
					c[k] = k + s
				}
			}
			extKeys(c)
			info["contact"] = c
		}
		if pres[2] {
			l := jx.Obj{}
			for _, k := range []string{"name", "url"} {
				if gen.Chance(rng, 50) {
					l[k] = k + s
				}
			}
			extKeys(l)
			info["license"] = l
		}
		d["info"] = info
	}
	if pres[3] {
		e := jx.Obj{}
		for _, k := range []string{"description", "url"} {
			if gen.Chance(rng, 50) {
				e[k] = k + s
			}
		}
		d["externalDocs"] = e
	}
	if pres[5] {
		extKeys(d)
	}
	for _, k := range []string{"consumes", "produces", "schemes"} {
		if gen.Chance(rng, 50) {
			var l jx.Arr
			pool := mediaPool
			if k == "schemes" {
				pool = []string{"http", "https", "ws"}
			}
			for i := rng.IntN(4); i > 0; i-- {
				l = append(l, gen.Pick(rng, pool))
			}
			if l != nil {
				d[k] = l
			}
		}
	}
	pick := func(pool []string) []string {
		var out []string
		for _, k := range pool {
			if gen.Chance(rng, 40) {
				out = append(out, k)
			}
		}
		return out
	}
	if ks := pick([]string{"t0", "t1", "t2", "t3"}); len(ks) > 0 {
		if gen.Chance(rng, 15) {
			ks = append(ks, ks[0]) // duplicate inside one document
		}
		putKeys(d, "tags", ks, di)
	}
	if ks := pick([]string{"s0", "s1", "s2"}); len(ks) > 0 {
		putKeys(d, "security", ks, di)
		if gen.Chance(rng, 20) {
			d["security"] = append(jx.AsArr(d["security"]), jx.Obj{})
		}
		if gen.Chance(rng, 40) {
			// a requirement combining several schemes (a superset of single-scheme requirements elsewhere)
			d["security"] = append(jx.AsArr(d["security"]), jx.Obj{ks[0]: jx.Arr{"scope"}, "extra": jx.Arr{}})
		}
	}
	for _, sec := range []string{"definitions", "parameters", "responses", "securityDefinitions"} {
		if ks := pick([]string{"A", "B", "C", "D", "E"}); len(ks) > 0 {
			putKeys(d, sec, ks, di)
		}
	}
	if pres[4] {
		paths := jx.Obj{}
		ids := rng.Perm(8)
		nid := 0
		for _, p := range []string{"/a", "/b", "/c", "/d", "/e"} {
			if !gen.Chance(rng, 45) {
				continue
			}
			pi := jx.Obj{}
			for _, m := range oracle.Methods {
				if !gen.Chance(rng, 30) {
					continue
				}
				op := jx.Obj{"description": "doc" + s, "responses": jx.Obj{"200": jx.Obj{"description": "ok"}}}
				if gen.Chance(rng, 65) && nid < len(ids) {
					op["operationId"] = "op" + strconv.Itoa(ids[nid])
					nid++
				}
				pi[m] = op
			}
			if gen.Chance(rng, 15) {
				pi["$ref"] = "shared-items.json#/x-items/it" + s
			}
			paths[p] = pi
		}
		if di == 0 && gen.Chance(rng, 35) {
			// an extension of the primary's paths object itself (also when it holds no path item at all)
			paths["x-path-group"] = "doc" + s
		}
		d["paths"] = paths
	}
	return d
}

func (e mixinEngine) Gen(prop, tier string, seed uint64, idx int) *runner.Case {
	c := &runner.Case{Engine: "mixin", Files: map[string]string{}}
	var docs []jx.Obj
	switch {
	case idx < mixPresence:
		pp, mp := idx>>6, idx&63
		var a, b [6]bool
		for i := 0; i < 6; i++ {
			a[i] = pp&(1<<i) != 0
			b[i] = mp&(1<<i) != 0
		}
		c.Name = fmt.Sprintf("sys/presence/p=%06b/m=%06b", pp, mp)
		docs = []jx.Obj{richDoc(0, a), richDoc(1, b)}
	case idx < mixPresence+mixOverlap:
		k := idx - mixPresence
		sec := mixSections[k/18]
		pat := mixPatterns[(k/6)%3]
		nm := 1 + (k/2)%3
		mmOnly := k%2 == 1
		c.Name = fmt.Sprintf("sys/overlap/%s/%s/mixins=%d/mmOnly=%v", sec, pat, nm, mmOnly)
		keys := make([][]string, nm+1)
		keys[0] = []string{"kp"}
		for i := 1; i <= nm; i++ {
			keys[i] = []string{"k" + strconv.Itoa(i)}
		}
		switch pat {
		case "one":
			if mmOnly {
				keys[nm] = append(keys[nm], "k1")
			} else {
				keys[1] = append(keys[1], "kp")
			}
		case "several":
			for i := 1; i <= nm; i++ {
				if mmOnly {
					keys[i] = append(keys[i], "shared1", "shared2")
				} else {
					keys[i] = append(keys[i], "kp", "shared1")
				}
			}
		}
		for i := 0; i <= nm; i++ {
			d := jx.Obj{"swagger": "2.0"}
			putKeys(d, sec, keys[i], i)
			if sec == "security" && pat == "several" && i > 0 {
				// supersets of requirements present earlier, and the empty requirement
				d["security"] = append(jx.AsArr(d["security"]), jx.Obj{"kp": jx.Arr{"scope"}, "k1": jx.Arr{"scope"}}, jx.Obj{})
			}
			docs = append(docs, d)
		}
		if sec == "security" && pat == "one" && mmOnly {
			docs[0]["security"] = append(jx.AsArr(docs[0]["security"]), jx.Obj{})
		}
	case idx < mixPresence+mixOverlap+mixIDs:
		k := idx - mixPresence - mixOverlap
		m := oracle.Methods[k/10]
		mm := (k/5)%2 == 1
		idless := k % 5
		c.Name = fmt.Sprintf("sys/ids/%s/mm=%v/idless=%d", m, mm, idless)
		mk := func(di int, id string, path string) jx.Obj {
			op := jx.Obj{"description": "doc" + strconv.Itoa(di), "responses": jx.Obj{"200": jx.Obj{"description": "ok"}}}
			if id != "" {
				op["operationId"] = id
			}
			pi := jx.Obj{m: op}
			if (idless == 2 && di == 0) || (idless == 3 && di > 0) {
				// a path item may carry a $ref next to its own operations: their ids count all the same
				pi["$ref"] = "shared-items.json#/x-items/it" + strconv.Itoa(di)
			}
			return jx.Obj{"swagger": "2.0", "paths": jx.Obj{path: pi}}
		}
		addIdless := func(d jx.Obj, di, n int) {
			for i := 0; i < n; i++ {
				mt := oracle.Methods[(i+1)%7]
				jx.AsObj(d["paths"])[fmt.Sprintf("/idless%d_%d", di, i)] = jx.Obj{mt: jx.Obj{"responses": jx.Obj{"200": jx.Obj{"description": "ok"}}}}
			}
		}
		if mm && idless == 2 {
			// an id that already ends like a renamed one, with the index of the very mixin that carries it
			docs = []jx.Obj{mk(0, "sameMixin1", "/p0"), mk(1, "sameMixin0", "/p1"), mk(2, "sameMixin1", "/p2")}
			docs[0]["paths"].(jx.Obj)["/p0b"] = jx.Obj{m: jx.Obj{"operationId": "sameMixin0", "responses": jx.Obj{"200": jx.Obj{"description": "ok"}}}}
		} else if mm {
			docs = []jx.Obj{mk(0, "other", "/p0"), mk(1, "same", "/p1"), mk(2, "same", "/p2")}
			if idless%2 == 1 {
				docs[0] = jx.Obj{"swagger": "2.0", "info": jx.Obj{"title": "no paths at all"}}
			}
		} else {
			docs = []jx.Obj{mk(0, "same", "/p0"), mk(1, "same", "/p1"), mk(2, "same", "/p2")}
		}
		if docs[0]["paths"] != nil {
			addIdless(docs[0], 0, idless/2)
		}
		addIdless(docs[1], 1, idless-idless/2)
		addIdless(docs[2], 2, idless)
		if idless == 4 && docs[0]["paths"] != nil {
			// an id carried by a path of mixin 0 that is skipped (its key exists in the primary) does not count as taken
			jx.AsObj(docs[1]["paths"])["/p0"] = jx.Obj{"delete": jx.Obj{"operationId": "onSkippedPath", "responses": jx.Obj{"200": jx.Obj{"description": "ok"}}}}
			jx.AsObj(docs[2]["paths"])["/fresh"] = jx.Obj{"delete": jx.Obj{"operationId": "onSkippedPath", "responses": jx.Obj{"200": jx.Obj{"description": "ok"}}}}
		}
	default:
		rng := gen.NewRng(seed, idx)
		nm := rng.IntN(4)
		c.Name = fmt.Sprintf("rnd/%d/mixins=%d", idx, nm)
		for i := 0; i <= nm; i++ {
			docs = append(docs, rndMixDoc(rng, i))
		}
	}
	c.Files["primary.json"] = string(jx.Canon(docs[0]))
	for i, d := range docs[1:] {
		c.Files[fmt.Sprintf("mixin%d.json", i)] = string(jx.Canon(d))
	}
	c.Extra = map[string]any{"mixins": len(docs) - 1}
	return c
}

func (mixinEngine) Info(prop, tier string) runner.Info {
	in := runner.Info{Level: "exploration",
		Assumptions: []string{"spec.Swagger Unmarshal/Marshal defines the normal form", "encoding/json", "reference model harness/oracle/mixin_model.go (written from the documented rules, not from mixin.go)"}}
	if prop == "C17" {
		in.Rule = "exhaustive 2^6 x 2^6 presence patterns of {info, contact, license, externalDocs, paths, extensions} on primary x one mixin (4096); systematic overlaps " +
			"{disjoint, one, several} x 11 collision-bearing sections x 1..3 mixins x {primary-vs-mixin, mixin-vs-mixin}; id families; seeded random sets of 0..3 mixins over small key pools. " +
			"Oracle: executable reference model on generic JSON compared with the serialized primary (modulo operationIds and absent==empty), and len(result) == modelled collisions. " +
			"non-trivial = at least one mixin and the merge changed the primary or produced a collision; distinct = SHA-256 of all documents."
		for _, s := range mixSections {
			in.AllCells = append(in.AllCells, "collision/"+s)
		}
		for _, s := range []string{"info", "contact", "license", "externalDocs", "paths", "extensions"} {
			in.AllCells = append(in.AllCells, "primary-only/"+s, "mixin-only/"+s, "both/"+s, "neither/"+s)
		}
	} else {
		in.Rule = "same case list as C17 (id collisions under each of the 7 methods x {primary-vs-mixin, mixin-vs-mixin} x 0..4 id-less operations, plus random sets); generator enforces the precondition " +
			"(ids unique per document, no id of the form <other>Mixin<N>) and the check re-verifies it. Oracle: all non-empty ids of the merged document pairwise distinct; an id changed only if " +
			"it collided and then to <id>Mixin<N>; id-less operations stay id-less; primary ids untouched. non-trivial = at least one id collision or one id-less mixin operation was merged."
		for _, m := range oracle.Methods {
			in.AllCells = append(in.AllCells, "collide/"+m, "idless/"+m)
		}
	}
	return in
}

var rxMixinForm = regexp.MustCompile(`^(.*)Mixin\d+$`)

func (mixinEngine) Check(prop, tier string, c *runner.Case) *runner.Result {
	res := &runner.Result{}
	nm := 0
	for k := range c.Files {
		if strings.HasPrefix(k, "mixin") {
			nm++
		}
	}
	texts := [][]byte{[]byte(c.Files["primary.json"])}
	for i := 0; i < nm; i++ {
		texts = append(texts, []byte(c.Files[fmt.Sprintf("mixin%d.json", i)]))
	}
	var nfs []jx.Obj
	var sws []*spec.Swagger
	nodes := 0
	for _, t := range texts {
		nf, err := lib.NormalForm(t)
		if err != nil {
			res.Skipped = "not loadable"
			return res
		}
		nfs = append(nfs, nf)
		sws = append(sws, lib.MustLoad(t))
		nodes += jx.CountNodes(nf)
	}
	expect, col := oracle.MixinModel(nfs[0], nfs[1:])
	total := 0
	for k, n := range col {
		total += n
		if n > 0 && prop == "C17" {
			res.Cell("collision/" + k)
		}
	}

	if prop == "C18" {
		// precondition
		all := map[string]bool{}
		for _, nf := range nfs {
			seen := map[string]bool{}
			for _, id := range oracle.OpIDs(nf) {
				if id == "" {
					continue
				}
				if seen[id] {
					res.Skipped = "precondition: duplicate id inside one document"
					return res
				}
				seen[id] = true
				all[id] = true
			}
		}
		for id := range all {
			if m := rxMixinForm.FindStringSubmatch(id); m != nil && all[m[1]] {
				res.Skipped = "precondition: id already of the form <other>Mixin<N>"
				return res
			}
		}
	}

	var out []string
	_, pi := runner.Call(nodes, nil, func() { out = analysis.Mixin(sws[0], sws[1:]...) })
	res.Evals++
	if pi != nil {
		if prop == "C17" {
			res.Violate("panic", "panic:"+pi.Site()+":"+runner.MsgClass(pi.Msg), "", "Mixin panicked: "+pi.Msg+"\n"+pi.Stack)
		} else {
			res.Skipped = "Mixin panicked (reported by C17)"
		}
		return res
	}
	after, _, err := lib.Dump(sws[0])
	if err != nil {
		res.Violate("unserializable", "unserializable", "", err.Error())
		return res
	}

	if prop == "C17" {
		for i, s := range []string{"info", "contact", "license", "externalDocs", "paths", "extensions"} {
			if nm == 0 {
				break
			}
			has := func(d jx.Obj) bool {
				switch i {
				case 0, 3, 4:
					return d[s] != nil
				case 1, 2:
					_, ok := jx.AsObj(d["info"])[s]
					return ok
				}
				for k := range d {
					if strings.HasPrefix(k, "x-") {
						return true
					}
				}
				return false
			}
			p, m := has(nfs[0]), has(nfs[1])
			switch {
			case p && m:
				res.Cell("both/" + s)
			case p:
				res.Cell("primary-only/" + s)
			case m:
				res.Cell("mixin-only/" + s)
			default:
				res.Cell("neither/" + s)
			}
		}
		a, b := jx.Clone(expect).(jx.Obj), jx.Clone(after).(jx.Obj)
		oracle.StripOpIDs(a)
		oracle.StripOpIDs(b)
		oracle.DropEmptyTop(a)
		oracle.DropEmptyTop(b)
		if d, diff := jx.Diff(a, b); diff {
			top := strings.SplitN(strings.TrimPrefix(d, "/"), "/", 2)[0]
			top = strings.Fields(top)[0]
			if strings.HasPrefix(top, "x-") {
				top = "x-*"
			}
			res.Violate("merge-differs", "merge-differs:"+top, "", "merged primary differs from the reference model at "+d+" (left = model, right = Mixin)")
		}
		if len(out) != total {
			dir := "fewer"
			if len(out) > total {
				dir = "more"
			}
			res.Violate("collision-count", "collision-count:"+dir, "", fmt.Sprintf("Mixin returned %d entries, the model counts %d collisions %v; returned: %q", len(out), total, col, out))
		}
		res.Ev("collisions_modelled", total)
		b0 := jx.Clone(nfs[0]).(jx.Obj)
		oracle.DropEmptyTop(b0)
		res.Nontrivial = nm > 0 && (total > 0 || !jx.Equal(b0, b))
		return res
	}

	// C18
	afterIDs := oracle.OpIDs(after)
	// provenance of each merged operation: first document that has the path
	origin := map[string]int{}
	for di, nf := range nfs {
		for _, p := range jx.Keys(jx.AsObj(nf["paths"])) {
			if _, ok := origin[p]; !ok {
				origin[p] = di
			}
		}
	}
	seenIDs := map[string]string{}
	var keys []string
	for k := range afterIDs {
		keys = append(keys, k)
	}
	sort.Strings(keys)
	for _, k := range keys {
		id := afterIDs[k]
		if id == "" {
			continue
		}
		if prev, dup := seenIDs[id]; dup {
			m := strings.Fields(k)[0]
			res.Violate("duplicate-id", "duplicate-id:"+m, "", fmt.Sprintf("operations %q and %q both have id %q after Mixin", prev, k, id))
		}
		seenIDs[id] = k
	}
	// ids of earlier documents' merged operations
	interesting := false
	for _, k := range keys {
		fs := strings.SplitN(k, " ", 2)
		method, p := fs[0], fs[1]
		di := origin[p]
		before := oracle.OpIDs(nfs[di])[k]
		got := afterIDs[k]
		if di == 0 {
			if got != before {
				res.Violate("primary-id-changed", "primary-id-changed", "", fmt.Sprintf("%s: %q -> %q", k, before, got))
			}
			continue
		}
		if before == "" {
			interesting = true
			res.Cell("idless/" + method)
			if got != "" {
				res.Violate("idless-got-id", "idless-got-id", "", fmt.Sprintf("%s (from mixin %d) had no operationId and now has %q", k, di-1, got))
			}
			continue
		}
		collided := false
		for ej := 0; ej < di; ej++ {
			for kk, id := range oracle.OpIDs(nfs[ej]) {
				pp := strings.SplitN(kk, " ", 2)[1]
				if origin[pp] == ej && id == before {
					collided = true
				}
			}
		}
		if collided {
			interesting = true
			res.Cell("collide/" + method)
			res.Ev("id_collisions", 1)
		}
		if got != before {
			if !collided {
				res.Violate("renamed-without-collision", "renamed-without-collision", "", fmt.Sprintf("%s: %q -> %q although no earlier operation has that id", k, before, got))
			} else if m := rxMixinForm.FindStringSubmatch(got); m == nil || m[1] != before {
				res.Violate("bad-rename-form", "bad-rename-form", "", fmt.Sprintf("%s: %q -> %q", k, before, got))
			}
		}
	}
	res.Ev("merged_operations", len(keys))
	res.Nontrivial = interesting
	return res
}
