//go:build race

package engines

const raceEnabled = true
