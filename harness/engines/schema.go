package engines

import (
	"fmt"
	"strconv"
	"strings"
	"sync"

	"github.com/go-openapi/analysis"
	"github.com/go-openapi/spec"

	"verif/harness/gen"
	"verif/harness/jx"
	"verif/harness/lib"
	"verif/harness/oracle"
	"verif/harness/runner"
)

func init() { runner.Register("schema", schemaEngine{}, "C20") }

type schemaEngine struct{}

// zoo is the fixed root document providing the $ref targets.
func zoo() jx.Obj {
	ref := func(n string) jx.Obj { return jx.Obj{"$ref": "#/definitions/" + n} }
	return jx.Obj{"swagger": "2.0", "info": jx.Obj{"title": "zoo", "version": "1"}, "paths": jx.Obj{},
		"definitions": jx.Obj{
			"Str":          jx.Obj{"type": "string"},
			"Date":         jx.Obj{"type": "string", "format": "date"},
			"Enum":         jx.Obj{"type": "string", "enum": jx.Arr{"a", "b"}},
			"Empty":        jx.Obj{},
			"EmptyObj":     jx.Obj{"type": "object"},
			"Obj":          jx.Obj{"type": "object", "properties": jx.Obj{"a": jx.Obj{"type": "string"}}},
			"ObjX":         jx.Obj{"type": "object", "properties": jx.Obj{"a": jx.Obj{"type": "string"}}, "additionalProperties": jx.Obj{"type": "integer"}},
			"Base":         jx.Obj{"type": "object", "discriminator": "kind", "properties": jx.Obj{"kind": jx.Obj{"type": "string"}}, "required": jx.Arr{"kind"}},
			"All":          jx.Obj{"allOf": jx.Arr{ref("Obj"), jx.Obj{"type": "object", "properties": jx.Obj{"b": jx.Obj{"type": "integer"}}}}},
			"MapS":         jx.Obj{"type": "object", "additionalProperties": jx.Obj{"type": "string"}},
			"MapAny":       jx.Obj{"type": "object", "additionalProperties": true},
			"MapO":         jx.Obj{"type": "object", "additionalProperties": ref("Obj")},
			"ArrS":         jx.Obj{"type": "array", "items": jx.Obj{"type": "string"}},
			"ArrO":         jx.Obj{"type": "array", "items": ref("Obj")},
			"ArrNoItems":   jx.Obj{"type": "array"},
			"Tup":          jx.Obj{"type": "array", "items": jx.Arr{jx.Obj{"type": "string"}, ref("Obj")}},
			"TupX":         jx.Obj{"type": "array", "items": jx.Arr{jx.Obj{"type": "string"}}, "additionalItems": jx.Obj{"type": "integer"}},
			"Chain":        ref("Obj"),
			"Chain2":       ref("Chain"),
			"Node":         jx.Obj{"type": "object", "properties": jx.Obj{"next": ref("Node"), "list": ref("NodeList")}},
			"NodeList":     jx.Obj{"type": "array", "items": ref("Node")},
			"MutA":         jx.Obj{"type": "object", "properties": jx.Obj{"b": ref("MutB")}},
			"MutB":         jx.Obj{"type": "object", "properties": jx.Obj{"a": ref("MutA")}},
			"ArrSelf":      jx.Obj{"type": "array", "items": ref("ArrSelf")},
			"MapSelf":      jx.Obj{"type": "object", "additionalProperties": ref("MapSelf")},
			"ArrMapSelf":   jx.Obj{"type": "array", "items": jx.Obj{"type": "object", "additionalProperties": ref("ArrMapSelf")}},
			"MutArrA":      jx.Obj{"type": "array", "items": ref("MutArrB")},
			"MutArrB":      jx.Obj{"type": "object", "additionalProperties": ref("MutArrA")},
			"ArrOfArrSelf": jx.Obj{"type": "array", "items": ref("ArrSelf")},
			// two containers closing two different cycles through each other
			"Ping": jx.Obj{"type": jx.Arr{"object", "array"}, "additionalProperties": ref("Ping"), "items": ref("Pong")},
			"Pong": jx.Obj{"type": jx.Arr{"object", "array"}, "additionalProperties": ref("Pong"), "items": ref("Ping")},
			"Tick": jx.Obj{"type": "object", "anyOf": jx.Arr{ref("Tock"), ref("Tick")}, "additionalProperties": ref("Tock")},
			"Tock": jx.Obj{"type": "object", "anyOf": jx.Arr{ref("Tick"), ref("Tock")}, "additionalProperties": ref("Tick")},
		}}
}

var zooNames = []string{"Str", "Date", "Enum", "Empty", "EmptyObj", "Obj", "ObjX", "Base", "All", "MapS", "MapAny", "MapO", "ArrS", "ArrO", "ArrNoItems",
	"Tup", "TupX", "Chain", "Chain2", "Node", "NodeList", "MutA", "MutB", "ArrSelf", "MapSelf", "ArrMapSelf", "MutArrA", "MutArrB", "ArrOfArrSelf", "Ping", "Pong", "Tick", "Tock"}

var sysSchemasOnce sync.Once
var sysSchemas []jx.Obj
var sysSchemaNames []string

func leaves() (out []jx.Obj, names []string) {
	add := func(n string, s jx.Obj) { out = append(out, s); names = append(names, n) }
	for _, t := range []string{"string", "integer", "number", "boolean"} {
		add("prim:"+t, jx.Obj{"type": t})
	}
	add("fmt:date-time", jx.Obj{"type": "string", "format": "date-time"})
	add("fmt:int64", jx.Obj{"type": "integer", "format": "int64"})
	add("fmt:unknown", jx.Obj{"type": "string", "format": "not-a-registered-format"})
	add("enum:string", jx.Obj{"type": "string", "enum": jx.Arr{"x", "y"}})
	add("enum:int", jx.Obj{"type": "integer", "enum": jx.Arr{float64(1), float64(2)}})
	add("empty:{}", jx.Obj{})
	add("empty:object", jx.Obj{"type": "object"})
	add("empty:descr", jx.Obj{"description": "only a description"})
	add("empty:ap-false", jx.Obj{"type": "object", "additionalProperties": false})
	add("empty:discriminator-only", jx.Obj{"type": "object", "discriminator": "kind"})
	add("map:string+discriminator", jx.Obj{"type": "object", "discriminator": "kind", "additionalProperties": jx.Obj{"type": "string"}})
	add("empty:allOf-empty-list", jx.Obj{"type": "object", "allOf": jx.Arr{}})
	add("map:string+allOf-empty-list", jx.Obj{"type": "object", "allOf": jx.Arr{}, "additionalProperties": jx.Obj{"type": "string"}})
	add("array:no-items", jx.Obj{"type": "array"})
	add("map:true", jx.Obj{"type": "object", "additionalProperties": true})
	add("map:true-notype", jx.Obj{"additionalProperties": true})
	for _, z := range zooNames {
		add("ref:"+z, jx.Obj{"$ref": "#/definitions/" + z})
	}
	return
}

func wrapAll(children []jx.Obj, cnames []string) (out []jx.Obj, names []string) {
	add := func(n string, s jx.Obj) { out = append(out, s); names = append(names, n) }
	for i, c := range children {
		n := cnames[i]
		cl := func() jx.Obj { return jx.Clone(c).(jx.Obj) }
		add("object{p:"+n+"}", jx.Obj{"type": "object", "properties": jx.Obj{"p": cl()}})
		add("object-notype{p:"+n+"}", jx.Obj{"properties": jx.Obj{"p": cl()}})
		add("object{p}+ap:"+n, jx.Obj{"type": "object", "properties": jx.Obj{"p": jx.Obj{"type": "string"}}, "additionalProperties": cl()})
		add("object+discriminator{p:"+n+"}", jx.Obj{"type": "object", "discriminator": "p", "properties": jx.Obj{"p": cl()}})
		add("map:"+n, jx.Obj{"type": "object", "additionalProperties": cl()})
		add("map-notype:"+n, jx.Obj{"additionalProperties": cl()})
		add("array:"+n, jx.Obj{"type": "array", "items": cl()})
		add("tuple["+n+"]", jx.Obj{"type": "array", "items": jx.Arr{cl()}})
		add("tuple[string,"+n+"]", jx.Obj{"type": "array", "items": jx.Arr{jx.Obj{"type": "string"}, cl()}})
		add("tuple[string]+ai:"+n, jx.Obj{"type": "array", "items": jx.Arr{jx.Obj{"type": "string"}}, "additionalItems": cl()})
		add("tuple["+n+"]+ai:true", jx.Obj{"type": "array", "items": jx.Arr{cl()}, "additionalItems": true})
		add("tuple["+n+"]+ai:false", jx.Obj{"type": "array", "items": jx.Arr{cl()}, "additionalItems": false})
		add("object{p:"+n+"}+ap:false", jx.Obj{"type": "object", "properties": jx.Obj{"p": cl()}, "additionalProperties": false})
		// multi-typed ("nullable") twins classify like their single-typed form
		add("object-nullable{p:"+n+"}", jx.Obj{"type": jx.Arr{"object", "null"}, "properties": jx.Obj{"p": cl()}})
		add("map-nullable:"+n, jx.Obj{"type": jx.Arr{"null", "object"}, "additionalProperties": cl()})
		add("array-nullable:"+n, jx.Obj{"type": jx.Arr{"array", "null"}, "items": cl()})
		add("tuple-nullable["+n+"]", jx.Obj{"type": jx.Arr{"array", "null"}, "items": jx.Arr{cl()}})
		add("allOf["+n+"]", jx.Obj{"allOf": jx.Arr{cl()}})
		add("allOf["+n+",obj]+ap", jx.Obj{"allOf": jx.Arr{cl(), jx.Obj{"type": "object", "properties": jx.Obj{"q": jx.Obj{"type": "string"}}}}, "additionalProperties": true})
	}
	return
}

func buildSysSchemas() {
	l, ln := leaves()
	d1, d1n := wrapAll(l, ln)
	// depth 2: wrap every second depth-1 schema to stay around 3000 cases
	var d1s []jx.Obj
	var d1sn []string
	for i := range d1 {
		if i%2 == 0 || strings.Contains(d1n[i], "Self") || strings.Contains(d1n[i], "Mut") {
			d1s = append(d1s, d1[i])
			d1sn = append(d1sn, d1n[i])
		}
	}
	d2, d2n := wrapAll(d1s, d1sn)
	sysSchemas = append(append(append(sysSchemas, l...), d1...), d2...)
	sysSchemaNames = append(append(append(sysSchemaNames, ln...), d1n...), d2n...)
}

func (schemaEngine) counts(tier string) (sys, rnd, fix int) {
	sysSchemasOnce.Do(buildSysSchemas)
	sys = len(sysSchemas)
	rnd, fix = 2000, len(lib.Fixtures())
	if tier == "thorough" {
		rnd = 100000
	}
	return
}

func (e schemaEngine) NumCases(prop, tier string, seed uint64) int {
	s, r, f := e.counts(tier)
	return s + r + f
}

func (e schemaEngine) Gen(prop, tier string, seed uint64, idx int) *runner.Case {
	sys, rnd, _ := e.counts(tier)
	c := &runner.Case{Engine: "schema", Files: map[string]string{}}
	root := zoo()
	var t jx.Obj
	switch {
	case idx < sys:
		t = sysSchemas[idx]
		c.Name = "sys/" + sysSchemaNames[idx]
	case idx < sys+rnd:
		rng := gen.NewRng(seed, idx)
		var refs []string
		for _, z := range zooNames {
			refs = append(refs, "#/definitions/"+z)
		}
		cnt := 0
		t = gen.Schema(rng, &gen.SchemaCfg{Hostile: true, Refs: refs, RefPct: 25, PatEnum: true, Counter: &cnt}, 1+rng.IntN(3))
		c.Name = "rnd/" + strconv.Itoa(idx)
	default:
		f := lib.Fixtures()[idx-sys-rnd]
		c.Name = "fixture/" + f
		b := lib.ReadFixtureJSON(f)
		if b == nil {
			c.Extra = map[string]any{"skip": "not a loadable swagger document"}
			return c
		}
		c.Files["root.json"] = string(b)
		c.Extra = map[string]any{"mode": "positions"}
		return c
	}
	defs := jx.AsObj(root["definitions"])
	defs["T"] = t
	defs["W1"] = jx.Obj{"$ref": "#/definitions/T"}
	c.Files["root.json"] = string(jx.Canon(root))
	c.Extra = map[string]any{"mode": "T"}
	return c
}

func (schemaEngine) Info(prop, tier string) runner.Info {
	return runner.Info{Level: "exploration",
		Rule: "systematic: every leaf (primitives, formats, enums, empty objects, $ref to each of 29 zoo definitions incl. self-containing arrays/maps, mutual recursion) wrapped by every container kind " +
			"(object, object+additionalProperties, discriminator, map, array, tuple, tuple+additionalItems, allOf) to depth 1 exhaustively and depth 2 for half of them; each schema analysed directly, through one $ref and through a chain of two $refs; " +
			"seeded random schemas of depth 1..3 from the schema grammar; every schema position of the repository fixtures. Oracles: coherence predicates on the exported flags, $ref transparency, " +
			"a reference classifier from the documented rules (three-valued for self-containing containers), hook H3 recursion-depth budget for termination. " +
			"non-trivial = Schema() returned a classification for a composite (non-leaf) schema or a $ref; distinct = SHA-256 of schema + root.",
		Assumptions:  []string{"spec.Schema Unmarshal/Marshal", "reference classifier harness/oracle/schema_model.go", "hook H3 (Enter/Leave in Schema) for depth; process-level fatal-error attribution otherwise"},
		MaxEventKeys: []string{"max_depth"},
	}
}

type flags struct {
	Known, Simple, Array, SimpleArray, Map, SimpleMap, Ext, Tuple, TupleX, Base, Enum bool
}

func flagsOf(a *analysis.AnalyzedSchema) flags {
	return flags{a.IsKnownType, a.IsSimpleSchema, a.IsArray, a.IsSimpleArray, a.IsMap, a.IsSimpleMap, a.IsExtendedObject, a.IsTuple, a.IsTupleWithExtra, a.IsBaseType, a.IsEnum}
}

func coherence(f flags) string {
	switch {
	case f.Simple != (f.Known || f.SimpleArray || f.SimpleMap):
		return "simple!=known|simpleArray|simpleMap"
	case f.SimpleArray && !f.Array:
		return "simpleArray-without-array"
	case f.SimpleMap && !f.Map:
		return "simpleMap-without-map"
	case f.Map && f.Ext:
		return "map-and-extendedObject"
	case f.Tuple && f.TupleX:
		return "tuple-and-tupleWithExtra"
	case f.Array && (f.Tuple || f.TupleX):
		return "array-and-tuple"
	}
	return ""
}

func triOK(t oracle.Tri, b bool) bool { return t == oracle.U || (t == oracle.T) == b }

func rulesMismatch(c oracle.Class, f flags) string {
	if !c.Consistent {
		return ""
	}
	chk := []struct {
		n string
		t oracle.Tri
		b bool
	}{{"KnownType", c.Known, f.Known}, {"SimpleSchema", c.Simple, f.Simple}, {"Array", c.Array, f.Array}, {"SimpleArray", c.SimpleArray, f.SimpleArray},
		{"Map", c.Map, f.Map}, {"SimpleMap", c.SimpleMap, f.SimpleMap}, {"ExtendedObject", c.Extended, f.Ext}, {"Tuple", c.Tuple, f.Tuple}, {"TupleWithExtra", c.TupleExtra, f.TupleX}}
	for _, x := range chk {
		if !triOK(x.t, x.b) {
			return fmt.Sprintf("%s: %s expected %v got %v", c.Kind, x.n, x.t == oracle.T, x.b)
		}
	}
	return ""
}

func (schemaEngine) Check(prop, tier string, c *runner.Case) *runner.Result {
	res := &runner.Result{}
	if s, ok := c.Extra["skip"].(string); ok {
		res.Skipped = s
		return res
	}
	text := []byte(c.Files["root.json"])
	rootNF, err := lib.NormalForm(text)
	if err != nil {
		res.Skipped = "not loadable"
		return res
	}
	sw := lib.MustLoad(text)
	nodes := jx.CountNodes(rootNF)

	analyse := func(label string, sch *spec.Schema) (flags, bool) {
		var a *analysis.AnalyzedSchema
		var err error
		st, pi := runner.Call(nodes, nil, func() { a, err = analysis.Schema(analysis.SchemaOpts{Schema: sch, Root: sw, BasePath: ""}) })
		res.Evals++
		res.EvMax("max_depth", st.MaxDepth)
		if pi != nil {
			if pi.Budget != nil {
				res.Violate("unbounded-recursion", "unbounded-recursion:Schema", label, fmt.Sprintf("Schema() exceeded the recursion budget: %s", pi.Msg))
			} else {
				res.Violate("panic", "panic:"+pi.Site()+":"+runner.MsgClass(pi.Msg), label, "Schema() panicked: "+pi.Msg+"\n"+pi.Stack)
			}
			return flags{}, false
		}
		if err != nil {
			res.Ev("schema_errors", 1)
			return flags{}, false
		}
		f := flagsOf(a)
		if m := coherence(f); m != "" {
			res.Violate("incoherent-flags", "incoherent:"+m, label, fmt.Sprintf("%s: %+v", m, f))
		}
		return f, true
	}

	if c.Extra["mode"] == "T" {
		defs := sw.Definitions
		tSch := defs["T"]
		tNF := jx.AsObj(jx.AsObj(rootNF["definitions"])["T"])
		fT, ok := analyse("direct", &tSch)
		if !ok {
			return res
		}
		cls := oracle.Classify(rootNF, tNF, map[string]bool{})
		res.Cell("kind/" + cls.Kind)
		if m := rulesMismatch(cls, fT); m != "" {
			res.Violate("rule-mismatch", "rule-mismatch:"+cls.Kind+":"+strings.Fields(m)[1], "direct", m+" for "+jx.Trunc(jx.CanonS(tNF), 300))
		}
		// the same schema as a program would assemble it: a holder built as &spec.SchemaOrBool{Schema: s} leaves the
		// redundant Allows flag unset, and serializes to the very same JSON
		{
			prog := tSch
			touched := false
			if ap := prog.AdditionalProperties; ap != nil && ap.Schema != nil {
				prog.AdditionalProperties = &spec.SchemaOrBool{Schema: ap.Schema}
				touched = true
			}
			if ai := prog.AdditionalItems; ai != nil && ai.Schema != nil {
				prog.AdditionalItems = &spec.SchemaOrBool{Schema: ai.Schema}
				touched = true
			}
			if touched {
				if fp, okp := analyse("assembled-in-go", &prog); okp && fp != fT {
					res.Violate("construction-dependent", "construction-dependent", "assembled-in-go", fmt.Sprintf("loaded from JSON %+v vs assembled in Go (same JSON) %+v", fT, fp))
				}
				res.Ev("assembled_in_go_twins", 1)
			}
		}
		w1 := spec.RefSchema("#/definitions/T")
		f1, ok1 := analyse("ref", w1)
		w2 := spec.RefSchema("#/definitions/W1")
		f2, ok2 := analyse("ref-ref", w2)
		if ok1 && f1 != fT {
			res.Violate("ref-not-transparent", "ref-not-transparent", "ref", fmt.Sprintf("direct %+v vs through $ref %+v", fT, f1))
		}
		if ok2 && f2 != fT {
			res.Violate("ref-not-transparent", "ref-not-transparent:chain", "ref-ref", fmt.Sprintf("direct %+v vs through two $refs %+v", fT, f2))
		}
		if !ok1 || !ok2 {
			res.Violate("ref-error", "ref-error", "ref", "Schema() on a resolvable $ref returned an error although the direct analysis succeeded")
		}
		_, isRef := tNF["$ref"]
		res.Nontrivial = isRef || (cls.Kind != "prim" && cls.Kind != "empty")
		if cls.Simple == oracle.U {
			res.Ev("self_containing_containers", 1)
		}
		return res
	}

	// fixture mode: every schema position of the document, the document being the root
	w := oracle.WalkDoc(rootNF)
	n := 0
	for _, sp := range w.Schemas {
		if n >= 400 {
			break
		}
		n++
		b := jx.Canon(sp.Node)
		sch, err := lib.LoadSchema(b)
		if err != nil {
			continue
		}
		f, ok := analyse("position", sch)
		if !ok {
			continue
		}
		nf := jx.AsObj(lib.ToGeneric(sch))
		if r, _ := nf["$ref"].(string); r != "" && len(nf) == 1 && strings.HasPrefix(r, "#/") {
			if tgt, ok := oracle.DerefLocal(rootNF, nf); ok {
				ts, err := lib.LoadSchema(jx.Canon(tgt))
				if err == nil {
					if ft, ok := analyse("target", ts); ok && ft != f {
						res.Violate("ref-not-transparent", "ref-not-transparent", "position", fmt.Sprintf("%s: %+v vs target %+v", jx.Ptr(sp.Ptr), f, ft))
					}
					res.Ev("fixture_refs_compared", 1)
				}
			}
			continue
		}
		cls := oracle.Classify(rootNF, nf, map[string]bool{})
		res.Cell("kind/" + cls.Kind)
		if m := rulesMismatch(cls, f); m != "" {
			res.Violate("rule-mismatch", "rule-mismatch:"+cls.Kind+":"+strings.Fields(m)[1], "position", jx.Ptr(sp.Ptr)+": "+m)
		}
	}
	res.Ev("fixture_positions", n)
	res.Nontrivial = n > 0
	return res
}
