package engines

import (
	"fmt"
	"math/rand/v2"
	"os"
	"path/filepath"
	"reflect"
	"sort"
	"strconv"
	"strings"
	"sync"
	"sync/atomic"

	"github.com/go-openapi/analysis"

	"verif/harness/gen"
	"verif/harness/jx"
	"verif/harness/lib"
	"verif/harness/runner"
)

func init() { runner.Register("race", raceEngine{}, "C16") }

type raceEngine struct{}

var bigFixtures = []string{
	"fixtures/bugs/bitbucket.json", "fixtures/bugs/1614/gitea.yaml", "fixtures/azure/applicationGateway.json", "fixtures/azure/networkWatcher.json", "fixtures/bugs/1621/fixture-1621.yaml",
	"fixtures/bugs/2113/base.yaml", "fixtures/external_definitions.yml", "fixtures/flatten.yml", "fixtures/patterns.yml", "fixtures/enums.yml", "fixtures/references.yml",
}

func (raceEngine) counts(tier string) (rnd, fix int) {
	if tier == "thorough" {
		return 400, len(bigFixtures)
	}
	return 48, len(bigFixtures)
}

func (e raceEngine) NumCases(prop, tier string, seed uint64) int {
	r, f := e.counts(tier)
	return r + f
}

func (e raceEngine) Gen(prop, tier string, seed uint64, idx int) *runner.Case {
	rnd, _ := e.counts(tier)
	c := &runner.Case{Engine: "race", Files: map[string]string{}, Root: "doc.json", Extra: map[string]any{"sched": float64(seed*1000003 + uint64(idx))}}
	if idx < rnd {
		rng := gen.NewRng(seed, idx)
		c.Name = "rnd/" + strconv.Itoa(idx)
		doc := gen.Doc(rng, gen.DocCfg{Hostile: gen.Chance(rng, 40), Depth: 1 + rng.IntN(2), Extended: true, PatEnum: true, RefPct: 20, Security: true, BadParamRefs: gen.Chance(rng, 30), MaxPaths: 3, OpNoResp: gen.Chance(rng, 30)})
		c.Files["doc.json"] = string(jx.Canon(doc))
		return c
	}
	f := bigFixtures[idx-rnd]
	c.Name = "fixture/" + f
	b := lib.ReadFixtureJSON(f)
	if b == nil {
		c.Extra["skip"] = "fixture not loadable"
		return c
	}
	c.Files["doc.json"] = string(b)
	return c
}

func (raceEngine) Info(prop, tier string) runner.Info {
	return runner.Info{Level: "exploration",
		Rule: "seeded random G-doc documents and 10 large repository fixtures. Per document: (a) the document is serialized and deep-compared (reflect.DeepEqual against a twin unmarshalled from the same bytes) before/after New + every public getter over its full argument domain; " +
			"(b) maps returned by the ten pattern/enum getters are mutated (add + delete) and the getters re-queried; (c) with a -race build: rounds of 2, 4 and 16 goroutines released by a barrier issue seeded random getter sequences on one shared Spec " +
			"(plus rounds where all goroutines hammer the same getter, and concurrent New on the same document), half of them mutating returned maps; every answer is compared with the sequential answer, the race log is read after every case. " +
			"non-trivial = at least one round in which two getter calls of different goroutines overlapped (measured with an atomic tick counter); distinct = SHA-256 of document + schedule seed.",
		Assumptions: []string{"Go race detector (happens-before, bounded shadow history: only races between accesses that actually occurred and are still remembered are reported)", "spec object model", "encoding/json"},
	}
}

var mapGetters = map[string]bool{"ParameterPatterns": true, "HeaderPatterns": true, "ItemsPatterns": true, "SchemaPatterns": true, "AllPatterns": true,
	"ParameterEnums": true, "HeaderEnums": true, "ItemsEnums": true, "SchemaEnums": true, "AllEnums": true}

func baseName(g string) string {
	if i := strings.IndexByte(g, '('); i >= 0 {
		return g[:i]
	}
	return g
}

// mutateReturnedMap adds and deletes entries in a map returned by a pattern/enum getter.
func mutateReturnedMap(sp *analysis.Spec, name string) {
	switch name {
	case "ParameterPatterns", "HeaderPatterns", "ItemsPatterns", "SchemaPatterns", "AllPatterns":
		var m map[string]string
		switch name {
		case "ParameterPatterns":
			m = sp.ParameterPatterns()
		case "HeaderPatterns":
			m = sp.HeaderPatterns()
		case "ItemsPatterns":
			m = sp.ItemsPatterns()
		case "SchemaPatterns":
			m = sp.SchemaPatterns()
		default:
			m = sp.AllPatterns()
		}
		for k := range m {
			delete(m, k)
		}
		m["#/injected"] = "x"
	default:
		var m map[string][]interface{}
		switch name {
		case "ParameterEnums":
			m = sp.ParameterEnums()
		case "HeaderEnums":
			m = sp.HeaderEnums()
		case "ItemsEnums":
			m = sp.ItemsEnums()
		case "SchemaEnums":
			m = sp.SchemaEnums()
		default:
			m = sp.AllEnums()
		}
		for k := range m {
			delete(m, k)
		}
		m["#/injected"] = []interface{}{"x"}
	}
}

type callRec struct {
	g, t0, t1 int64
	getter    int
}

func raceLogSize() (string, int64) {
	g := os.Getenv("GORACE")
	for _, f := range strings.Fields(g) {
		if strings.HasPrefix(f, "log_path=") {
			p := strings.TrimPrefix(f, "log_path=") + "." + strconv.Itoa(os.Getpid())
			if st, err := os.Stat(p); err == nil {
				return p, st.Size()
			}
			return p, 0
		}
	}
	return "", 0
}

func (raceEngine) Check(prop, tier string, c *runner.Case) *runner.Result {
	res := &runner.Result{}
	if s, ok := c.Extra["skip"].(string); ok {
		res.Skipped = s
		return res
	}
	text := []byte(c.Files["doc.json"])
	nf, err := lib.NormalForm(text)
	if err != nil {
		res.Skipped = "not loadable"
		return res
	}
	sched, _ := c.Extra["sched"].(float64)
	sw, twin := lib.MustLoad(text), lib.MustLoad(text)
	_, before, _ := lib.Dump(sw)
	logPath, logBefore := raceLogSize()

	var sp *analysis.Spec
	_, pi := runner.Call(jx.CountNodes(nf), nil, func() { sp = analysis.New(sw) })
	if pi != nil {
		res.Skipped = "New panicked (C09/C11 report that)"
		return res
	}
	gs := GetterList(DomainOf(nf))
	seq := make([]string, len(gs))
	for i, g := range gs {
		seq[i] = Answer(g, sp)
	}
	res.Evals += len(gs) + 1
	res.Ev("getter_calls_sequential", len(gs))

	// (a) read-only
	_, after, _ := lib.Dump(sw)
	if string(before) != string(after) {
		res.Violate("document-modified", "document-modified:bytes", "", "serialized document differs after New + all getters")
	} else if !reflect.DeepEqual(sw, twin) {
		res.Violate("document-modified", "document-modified:deep", "", "document is not reflect.DeepEqual to its twin after New + all getters")
	}
	// (b) copies
	for i, g := range gs {
		if mapGetters[g.Name] {
			mutateReturnedMap(sp, g.Name)
			res.Evals += 2
			if a := Answer(g, sp); a != seq[i] {
				res.Violate("returned-map-aliased", "returned-map-aliased:"+g.Name, "", g.Name+"() answers differently after the map it returned earlier was modified")
			}
		}
	}
	for i, g := range gs { // a mutation through one getter must not leak into another view either
		if mapGetters[g.Name] {
			if a := Answer(g, sp); a != seq[i] {
				res.Violate("returned-map-aliased", "returned-map-aliased:cross:"+g.Name, "", g.Name+"() changed after maps returned by other getters were modified")
			}
		}
	}

	// (c) concurrent readers
	var tick atomic.Int64
	overlaps := map[string]bool{}
	var mism atomic.Int64
	var firstMismatch atomic.Value
	round := func(label string, G, calls int, pick func(rng *rand.Rand) int) {
		// a fresh analyzer per round: anything initialised lazily on first use is then first used concurrently
		sp := analysis.New(sw)
		recs := make([][]callRec, G)
		var start, done sync.WaitGroup
		start.Add(1)
		for gi := 0; gi < G; gi++ {
			done.Add(1)
			go func(gi int) {
				defer done.Done()
				rng := rand.New(rand.NewPCG(uint64(sched), uint64(gi)*7919+uint64(len(label))))
				mutator := gi%2 == 1
				start.Wait()
				for k := 0; k < calls; k++ {
					i := pick(rng)
					t0 := tick.Add(1)
					a := Answer(gs[i], sp)
					t1 := tick.Add(1)
					recs[gi] = append(recs[gi], callRec{int64(gi), t0, t1, i})
					if a != seq[i] {
						if mism.Add(1) == 1 {
							firstMismatch.Store(fmt.Sprintf("%s: goroutine %d: %s answered %.200s, sequential answer %.200s", label, gi, gs[i].Name, a, seq[i]))
						}
					}
					if mutator && mapGetters[gs[i].Name] {
						mutateReturnedMap(sp, gs[i].Name)
					}
				}
			}(gi)
		}
		start.Done()
		done.Wait()
		// overlapping pairs of this round
		var all []callRec
		for _, r := range recs {
			all = append(all, r...)
		}
		sort.Slice(all, func(i, j int) bool { return all[i].t0 < all[j].t0 })
		var active []callRec
		for _, r := range all {
			na := active[:0]
			for _, a := range active {
				if a.t1 > r.t0 {
					na = append(na, a)
					if a.g != r.g {
						x, y := baseName(gs[a.getter].Name), baseName(gs[r.getter].Name)
						if x > y {
							x, y = y, x
						}
						overlaps[x+"|"+y] = true
					}
				}
			}
			active = append(na, r)
		}
		res.Evals += len(all)
		res.Ev("getter_calls_concurrent", len(all))
		res.Ev("rounds", 1)
	}
	any := func(rng *rand.Rand) int { return rng.IntN(len(gs)) }
	round("g2", 2, 80, any)
	round("g4", 4, 60, any)
	round("g16", 16, 40, any)
	prng := rand.New(rand.NewPCG(uint64(sched), 4242))
	for k := 0; k < 6; k++ {
		i := prng.IntN(len(gs))
		round("same:"+gs[i].Name, 2+2*(k%2), 25, func(*rand.Rand) int { return i })
	}
	// first-use rounds: every getter (by name) is hit by several goroutines at once as the very first query of a fresh analyzer
	{
		byBase := map[string][]int{}
		var bases []string
		for i, g := range gs {
			b := baseName(g.Name)
			if _, ok := byBase[b]; !ok {
				bases = append(bases, b)
			}
			byBase[b] = append(byBase[b], i)
		}
		for _, b := range bases {
			i := byBase[b][prng.IntN(len(byBase[b]))]
			round("first:"+b, 3, 3, func(*rand.Rand) int { return i })
		}
		res.Ev("first_use_rounds", len(bases))
	}
	// concurrent New on the same document: legal precisely because New must not write to it
	{
		var wg sync.WaitGroup
		answers := make([]string, 4)
		for gi := 0; gi < 4; gi++ {
			wg.Add(1)
			go func(gi int) {
				defer wg.Done()
				s2 := analysis.New(sw)
				answers[gi] = Answer(gs[gi%len(gs)], s2)
			}(gi)
		}
		wg.Wait()
		for gi, a := range answers {
			if a != seq[gi%len(gs)] {
				res.Violate("answer-differs", "answer-differs:concurrent-New", "", "an analyzer built concurrently answers differently")
			}
		}
		res.Evals += 8
		res.Ev("concurrent_new", 4)
	}
	// analyzers of two DIFFERENT documents working at the same time: nothing may be shared between them
	// (a package-level scratch variable or cache would show here, as a race or as a wrong answer)
	{
		other := jx.Obj{"swagger": "2.0", "info": jx.Obj{"title": "other", "version": "1"}, "consumes": jx.Arr{"application/other"},
			"paths": jx.Obj{"/other/{id}": jx.Obj{"parameters": jx.Arr{jx.Obj{"name": "id", "in": "path", "type": "string", "required": true, "pattern": "^o"}},
				"get":  jx.Obj{"operationId": "otherGet", "security": jx.Arr{jx.Obj{"k": jx.Arr{}}}, "responses": jx.Obj{"200": jx.Obj{"description": "ok", "schema": jx.Obj{"$ref": "#/definitions/Other"}}}},
				"post": jx.Obj{"operationId": "otherPost", "produces": jx.Arr{"text/other"}, "parameters": jx.Arr{jx.Obj{"name": "b", "in": "body", "schema": jx.Obj{"$ref": "#/definitions/Other"}}}, "responses": jx.Obj{"default": jx.Obj{"description": "d"}}}}},
			"securityDefinitions": jx.Obj{"k": jx.Obj{"type": "apiKey", "name": "k", "in": "header"}},
			"definitions":         jx.Obj{"Other": jx.Obj{"type": "object", "properties": jx.Obj{"e": jx.Obj{"type": "string", "enum": jx.Arr{"o"}}}}}}
		osw, err := lib.Load(jx.Canon(other))
		if err == nil {
			ogs := GetterList(DomainOf(other))
			osp := analysis.New(osw)
			oseq := make([]string, len(ogs))
			for i, g := range ogs {
				oseq[i] = Answer(g, osp)
			}
			var wg sync.WaitGroup
			var bad atomic.Int64
			for gi := 0; gi < 4; gi++ {
				wg.Add(1)
				go func(gi int) {
					defer wg.Done()
					if gi%2 == 0 {
						s2 := analysis.New(osw)
						for i, g := range ogs {
							if Answer(g, s2) != oseq[i] {
								bad.Add(1)
							}
						}
					} else {
						s2 := analysis.New(sw)
						for i, g := range gs {
							if i%3 == gi%3 && Answer(g, s2) != seq[i] {
								bad.Add(1)
							}
						}
					}
				}(gi)
			}
			wg.Wait()
			if bad.Load() > 0 {
				res.Violate("answer-differs", "answer-differs:two-documents", "", fmt.Sprintf("%d answers differ when analyzers of two different documents work concurrently", bad.Load()))
			}
			res.Evals += len(ogs) * 2
			res.Ev("two_document_rounds", 1)
		}
	}
	if n := mism.Load(); n > 0 {
		m, _ := firstMismatch.Load().(string)
		res.Violate("answer-differs", "answer-differs:concurrent", "", fmt.Sprintf("%d concurrent answers differ from the sequential ones; first: %s", n, m))
	}
	_, final, _ := lib.Dump(sw)
	if string(before) != string(final) || !reflect.DeepEqual(sw, twin) {
		res.Violate("document-modified", "document-modified:after-concurrency", "", "document changed during the concurrent rounds")
	}
	for p := range overlaps {
		res.Set("overlapping_getter_pairs", p)
	}
	res.Ev("overlapping_pairs_in_case", len(overlaps))

	// race log
	if !raceEnabled {
		res.Inconclusive = append(res.Inconclusive, "binary not built with -race")
	} else if logPath == "" {
		res.Inconclusive = append(res.Inconclusive, "GORACE log_path not set")
	} else if _, sz := raceLogSize(); sz > logBefore {
		b, _ := os.ReadFile(logPath)
		if int64(len(b)) >= sz {
			b = b[logBefore:]
		}
		blocks := strings.Split(string(b), "==================")
		n := 0
		for _, bl := range blocks {
			if !strings.Contains(bl, "WARNING: DATA RACE") {
				continue
			}
			n++
			lib := strings.Contains(bl, "github.com/go-openapi/")
			site := raceSite(bl)
			if lib {
				res.Violate("data-race", "data-race:"+site, "", bl)
			} else {
				res.Inconclusive = append(res.Inconclusive, "data race outside the library (harness bug?): "+jx.Trunc(bl, 1500))
			}
		}
		res.Ev("race_blocks", n)
	}
	res.Nontrivial = len(overlaps) > 0
	_ = filepath.Join
	return res
}

// raceSite de-duplicates a race block by the pair of outermost in-module frames of its two stacks.
func raceSite(block string) string {
	var sites []string
	for _, part := range strings.Split(block, "\n\n") {
		outer := ""
		for _, ln := range strings.Split(part, "\n") {
			ln = strings.TrimSpace(ln)
			if strings.HasPrefix(ln, "github.com/go-openapi/analysis") {
				if i := strings.LastIndex(ln, "("); i > 0 {
					ln = ln[:i]
				}
				outer = strings.TrimPrefix(ln, "github.com/go-openapi/analysis")
			}
		}
		if outer != "" {
			sites = append(sites, outer)
		}
		if len(sites) == 2 {
			break
		}
	}
	sort.Strings(sites)
	return strings.Join(sites, "|")
}
