// Package runner is the parent/worker machinery shared by all engines: deterministic case lists,
// crash/hang attribution, known-findings matching, replay directories and evidence files.
package runner

import (
	"crypto/sha256"
	"encoding/hex"
	"encoding/json"
	"sort"
)

// Case is a self-contained input of one engine. Replays are Cases written to disk.
type Case struct {
	Engine string            `json:"engine"`
	Name   string            `json:"name"`
	Files  map[string]string `json:"files,omitempty"` // relative path -> JSON text
	Root   string            `json:"root,omitempty"`
	Opts   []string          `json:"opts,omitempty"` // option sets / modes this case is run under
	Tags   []string          `json:"tags,omitempty"` // feature cells
	Extra  map[string]any    `json:"extra,omitempty"`
}

func (c *Case) Hash() string {
	cp := *c
	cp.Name = ""
	b, _ := json.Marshal(cp)
	h := sha256.Sum256(b)
	return hex.EncodeToString(h[:12])
}

// Violation is one refutation witnessed by an oracle.
type Violation struct {
	Kind   string `json:"kind"`   // from the closed list of the oracle
	Sig    string `json:"sig"`    // signature used for known-finding matching (input independent)
	Opt    string `json:"opt"`    // option set / mode under which it was seen
	Detail string `json:"detail"` // what was observed vs expected
}

type Result struct {
	Index        int                 `json:"index"`
	Name         string              `json:"name"`
	Hash         string              `json:"hash"`
	Evals        int                 `json:"evals"` // library calls observed
	Nontrivial   bool                `json:"nontrivial"`
	Tags         []string            `json:"tags,omitempty"`
	Cells        []string            `json:"cells,omitempty"` // feature cells observed by the oracle (not planned by the generator)
	Events       map[string]int      `json:"events,omitempty"`
	Sets         map[string][]string `json:"sets,omitempty"` // named sets of distinct things seen (merged by union)
	Violations   []Violation         `json:"violations,omitempty"`
	Inconclusive []string            `json:"inconclusive,omitempty"`
	Skipped      string              `json:"skipped,omitempty"`
	CPUms        int64               `json:"cpu_ms"`
}

func (r *Result) Ev(k string, n int) {
	if r.Events == nil {
		r.Events = map[string]int{}
	}
	r.Events[k] += n
}

func (r *Result) EvMax(k string, n int) {
	if r.Events == nil {
		r.Events = map[string]int{}
	}
	if n > r.Events[k] {
		r.Events[k] = n
	}
}

func (r *Result) Set(name, v string) {
	if r.Sets == nil {
		r.Sets = map[string][]string{}
	}
	for _, x := range r.Sets[name] {
		if x == v {
			return
		}
	}
	r.Sets[name] = append(r.Sets[name], v)
}

func (r *Result) Cell(c string) {
	for _, x := range r.Cells {
		if x == c {
			return
		}
	}
	r.Cells = append(r.Cells, c)
}

func (r *Result) Violate(kind, sig, opt, detail string) {
	if len(detail) > 1500 {
		detail = detail[:1500] + "…"
	}
	r.Violations = append(r.Violations, Violation{Kind: kind, Sig: sig, Opt: opt, Detail: detail})
}

// Info describes a check for the evidence file.
type Info struct {
	Level         string   // exploration | fault_enumeration
	Rule          string   // how cases are generated and what counts as non-trivial
	Assumptions   []string // trusted base
	MaxEventKeys  []string // event keys merged by max instead of sum
	AllCells      []string // the full feature matrix (for hit/total reporting); may be nil
	MinSuccessPct int      // if >0: Events["ok_calls"]*100/Events["calls"] below this => inconclusive
}

// Engine generates and checks cases for the properties it serves.
type Engine interface {
	NumCases(prop, tier string, seed uint64) int
	Gen(prop, tier string, seed uint64, idx int) *Case
	Check(prop, tier string, c *Case) *Result
	Info(prop, tier string) Info
}

var engines = map[string]Engine{}    // by engine name
var propEngine = map[string]string{} // property -> engine name

func Register(name string, e Engine, props ...string) {
	engines[name] = e
	for _, p := range props {
		propEngine[p] = name
	}
}

func EngineFor(prop string) (Engine, string) {
	n := propEngine[prop]
	return engines[n], n
}

func Props() []string {
	var ps []string
	for p := range propEngine {
		ps = append(ps, p)
	}
	sort.Strings(ps)
	return ps
}
