package runner

import (
	"encoding/json"
	"fmt"
	"os"
	"path/filepath"
	"sort"
	"strconv"

	"verif/harness/jx"
)

// hasSig runs the check on a candidate and tells whether the same violation signature is still observed.
// A candidate that is outside its class makes the engine answer "inconclusive", which counts as not reproducing.
func hasSig(eng Engine, prop, tier string, c *Case, sig string) bool {
	r := safeCheck(eng, prop, tier, c)
	if len(r.Inconclusive) > 0 {
		return false
	}
	for _, v := range r.Violations {
		if v.Sig == sig {
			return true
		}
	}
	return false
}

type delCand struct {
	file string
	path []string
	size int
}

func listCands(file string, v any, at []string, out *[]delCand) {
	switch t := v.(type) {
	case jx.Obj:
		for _, k := range jx.Keys(t) {
			p := append(append([]string{}, at...), k)
			*out = append(*out, delCand{file, p, jx.CountNodes(t[k])})
			listCands(file, t[k], p, out)
		}
	case jx.Arr:
		for i := len(t) - 1; i >= 0; i-- {
			p := append(append([]string{}, at...), strconv.Itoa(i))
			*out = append(*out, delCand{file, p, jx.CountNodes(t[i])})
			listCands(file, t[i], p, out)
		}
	}
}

func deleteAt(doc any, path []string) (any, bool) {
	if len(path) == 0 {
		return doc, false
	}
	switch t := doc.(type) {
	case jx.Obj:
		if len(path) == 1 {
			if _, ok := t[path[0]]; !ok {
				return doc, false
			}
			delete(t, path[0])
			return t, true
		}
		c, ok := t[path[0]]
		if !ok {
			return doc, false
		}
		n, ok := deleteAt(c, path[1:])
		t[path[0]] = n
		return t, ok
	case jx.Arr:
		i, err := strconv.Atoi(path[0])
		if err != nil || i < 0 || i >= len(t) {
			return doc, false
		}
		if len(path) == 1 {
			return append(append(jx.Arr{}, t[:i]...), t[i+1:]...), true
		}
		n, ok := deleteAt(t[i], path[1:])
		t[i] = n
		return t, ok
	}
	return doc, false
}

// Shrink greedily deletes JSON subtrees (and whole auxiliary files) while the same signature persists.
func Shrink(prop, tier string, c *Case, sig, opt string, budget int) (*Case, int) {
	eng, _ := EngineFor(prop)
	cur := *c
	cur.Files = map[string]string{}
	for k, v := range c.Files {
		cur.Files[k] = v
	}
	if opt != "" && len(c.Opts) > 0 {
		cur.Opts = []string{opt}
	}
	tries := 0
	if !hasSig(eng, prop, tier, &cur, sig) {
		return nil, 1
	}
	for progress := true; progress && tries < budget; {
		progress = false
		// whole files first
		var names []string
		for f := range cur.Files {
			names = append(names, f)
		}
		sort.Strings(names)
		for _, f := range names {
			if f == cur.Root || len(cur.Files) == 1 {
				continue
			}
			cand := cur
			cand.Files = map[string]string{}
			for k, v := range cur.Files {
				if k != f {
					cand.Files[k] = v
				}
			}
			tries++
			if hasSig(eng, prop, tier, &cand, sig) {
				cur = cand
				progress = true
			}
		}
		var cands []delCand
		for _, f := range names {
			if t, ok := cur.Files[f]; ok {
				if v, err := jx.Parse([]byte(t)); err == nil {
					listCands(f, v, nil, &cands)
				}
			}
		}
		sort.SliceStable(cands, func(i, j int) bool { return cands[i].size > cands[j].size })
		for _, d := range cands {
			if tries >= budget {
				break
			}
			t, ok := cur.Files[d.file]
			if !ok {
				continue
			}
			v, err := jx.Parse([]byte(t))
			if err != nil {
				continue
			}
			nv, ok := deleteAt(v, d.path)
			if !ok {
				continue
			}
			cand := cur
			cand.Files = map[string]string{}
			for k, x := range cur.Files {
				cand.Files[k] = x
			}
			cand.Files[d.file] = string(jx.Canon(nv))
			tries++
			if hasSig(eng, prop, tier, &cand, sig) {
				cur = cand
				progress = true
			}
		}
	}
	return &cur, tries
}

// ShrinkReplay shrinks the case of a replay directory for each of its violation signatures and writes shrunk-<n>.json.
func ShrinkReplay(prop, tier, dir string) int {
	b, err := os.ReadFile(filepath.Join(dir, "case.json"))
	if err != nil {
		fmt.Println(err)
		return 2
	}
	var c Case
	if err := json.Unmarshal(b, &c); err != nil {
		fmt.Println(err)
		return 2
	}
	eng, _ := EngineFor(prop)
	r := safeCheck(eng, prop, tier, &c)
	seen := map[string]bool{}
	n := 0
	for _, v := range r.Violations {
		if seen[v.Sig] {
			continue
		}
		seen[v.Sig] = true
		s, tries := Shrink(prop, tier, &c, v.Sig, v.Opt, 4000)
		if s == nil {
			fmt.Printf("signature %q does not reproduce in-process\n", v.Sig)
			continue
		}
		n++
		out, _ := json.MarshalIndent(s, "", " ")
		p := filepath.Join(dir, fmt.Sprintf("shrunk-%d.json", n))
		_ = os.WriteFile(p, out, 0o644)
		total := 0
		for _, t := range s.Files {
			total += len(t)
		}
		fmt.Printf("sig %q opt=%s: shrunk to %d bytes in %d tries -> %s\n", v.Sig, v.Opt, total, tries, p)
		for f, t := range s.Files {
			fmt.Printf("--- %s\n%s\n", f, t)
		}
		r2 := safeCheck(eng, prop, tier, s)
		for _, v2 := range r2.Violations {
			if v2.Sig == v.Sig {
				fmt.Printf("detail: %s\n", firstLines(v2.Detail, 8))
				break
			}
		}
	}
	return 0
}
