package runner

import (
	"fmt"
	"regexp"
	"runtime"
	"strings"

	"github.com/go-openapi/analysis"
)

// ---- hook sink: logical budgets (H1, H3) and phase trace (H2) ----

// BudgetExceeded is the sentinel panic raised by the sink.
type BudgetExceeded struct {
	What  string // "loop" or "depth"
	Site  string
	Count int
}

func (b BudgetExceeded) Error() string {
	return fmt.Sprintf("verif budget exceeded: %s at %s after %d", b.What, b.Site, b.Count)
}

// CallStats is what the hooks reported during one library call.
type CallStats struct {
	Loops    map[string]int
	MaxDepth int
	Phases   []PhaseRec
	HooksHit bool
}

type PhaseRec struct {
	Name string
	Doc  any // the live document pointer; only valid during the call (used by PhaseFn)
}

type monitorState struct {
	active      bool
	loopBudget  int
	depthBudget int
	loops       map[string]int
	depth       int
	maxDepth    int
	phases      []string
	phaseFn     func(name string, doc any)
	hit         bool
}

var mon monitorState

func init() {
	analysis.VerifSetSink(func(e analysis.VerifEvent) {
		if !mon.active {
			return
		}
		mon.hit = true
		switch e.Kind {
		case "loop":
			mon.loops[e.Site]++
			budget := mon.loopBudget
			if e.Site != "DeepestRef" {
				// fixpoint loops need at most one pass per definition / remote reference; the walk inside DeepestRef is
				// entered once per $ref and per pass, hence its larger (cumulative) budget
				budget = mon.loopBudget / 10
			}
			if mon.loops[e.Site] > budget {
				n := mon.loops[e.Site]
				mon.active = false
				panic(BudgetExceeded{"loop", e.Site, n})
			}
		case "enter":
			mon.depth++
			if mon.depth > mon.maxDepth {
				mon.maxDepth = mon.depth
			}
			if mon.depth > mon.depthBudget {
				d := mon.depth
				mon.active = false
				panic(BudgetExceeded{"depth", e.Site, d})
			}
		case "leave":
			mon.depth--
		case "phase":
			mon.phases = append(mon.phases, e.Site)
			if mon.phaseFn != nil {
				mon.phaseFn(e.Site, e.Doc)
			}
		}
	})
}

// Budgets computes the logical budgets from the size of the input (number of JSON nodes).
func Budgets(nodes int) (loop, depth int) {
	loop = 1000 + 50*nodes
	depth = 200 + 20*nodes
	if depth > 5000 {
		depth = 5000
	}
	return
}

// PanicInfo describes a panic recovered at the library boundary.
type PanicInfo struct {
	Msg    string
	Budget *BudgetExceeded
	Frames []string // in-module function names, innermost first, line numbers stripped
	Stack  string
}

// Site is the signature part of a panic: innermost in-module function.
func (p *PanicInfo) Site() string {
	if p.Budget != nil {
		return p.Budget.What + ":" + p.Budget.Site
	}
	if len(p.Frames) > 0 {
		return p.Frames[0]
	}
	return "unknown"
}

var rxFrame = regexp.MustCompile(`(?m)^(github\.com/go-openapi/analysis\S*)\(`)

// Call runs f (one call into the library) under recover() with the hook monitor armed.
// phaseFn, when non-nil, is invoked synchronously at each Flatten phase boundary.
func Call(nodes int, phaseFn func(name string, doc any), f func()) (stats CallStats, pi *PanicInfo) {
	lb, db := Budgets(nodes)
	mon = monitorState{active: true, loopBudget: lb, depthBudget: db, loops: map[string]int{}, phaseFn: phaseFn}
	defer func() {
		if r := recover(); r != nil {
			buf := make([]byte, 1<<16)
			buf = buf[:runtime.Stack(buf, false)]
			pi = &PanicInfo{Msg: fmt.Sprint(r), Stack: string(buf)}
			if b, ok := r.(BudgetExceeded); ok {
				pi.Budget = &b
			}
			for _, m := range rxFrame.FindAllStringSubmatch(string(buf), -1) {
				fn := m[1]
				if strings.Contains(fn, "verifhook") || strings.Contains(fn, "VerifSetSink") {
					continue
				}
				pi.Frames = append(pi.Frames, strings.TrimPrefix(fn, "github.com/go-openapi/analysis"))
			}
		}
		mon.active = false
		stats = CallStats{Loops: mon.loops, MaxDepth: mon.maxDepth, HooksHit: mon.hit}
		for _, p := range mon.phases {
			stats.Phases = append(stats.Phases, PhaseRec{Name: p})
		}
	}()
	f()
	return
}

// MsgClass reduces an error or panic message to its input-independent parts: the text before the first
// variable part (quote, pointer, path, digit) and the last ": "-separated segment of the first line.
var rxVar = regexp.MustCompile("[\"'`#/0-9%~{\\[]")

func MsgClass(msg string) string {
	s := msg
	if i := strings.IndexByte(s, '\n'); i >= 0 {
		s = s[:i]
	}
	head := s
	if loc := rxVar.FindStringIndex(s); loc != nil {
		head = s[:loc[0]]
	}
	head = strings.TrimRight(head, " :")
	tail := ""
	if i := strings.LastIndex(s, ": "); i >= 0 && i+2 < len(s) {
		tail = s[i+2:]
		if rxVar.MatchString(tail) {
			tail = ""
		}
	}
	if tail != "" && !strings.HasSuffix(head, tail) {
		head += " … " + tail
	}
	if len(head) > 120 {
		head = head[:120]
	}
	return head
}
