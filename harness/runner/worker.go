package runner

import (
	"bufio"
	"encoding/json"
	"fmt"
	"io"
	"log"
	"os"
	"runtime"
	"runtime/debug"
	"runtime/metrics"
	"strconv"
	"strings"
	"sync/atomic"
	"syscall"
	"time"
)

// WorkerArgs selects which indices a worker runs.
type WorkerArgs struct {
	Prop, Tier string
	Seed       uint64
	Start      int // first index
	Stride     int
	N          int    // total number of cases
	Only       int    // if >=0 run just that index
	CaseFile   string // if set: run this case file instead of generated cases (replay)
	Out        string // results file (JSON lines)
	Progress   string // progress file
	CPULimit   int    // seconds of process CPU per case before the case is declared hung
}

func cpuNow() time.Duration {
	var ru syscall.Rusage
	_ = syscall.Getrusage(syscall.RUSAGE_SELF, &ru)
	// user time only: a loop that never ends burns user time; system time also grows with page reclaim and
	// scheduling overhead on an overloaded machine (two unreproducible "hangs" in ordinary code were seen under such load)
	return time.Duration(ru.Utime.Nano())
}

var curCaseStartCPU atomic.Int64 // ns; 0 = no case running
var curCaseIdx atomic.Int64

// Worker runs cases and appends results; it exits non-zero only through the watchdog or a fatal error.
func Worker(a WorkerArgs) int {
	debug.SetMaxStack(256 << 20)
	log.SetOutput(io.Discard)
	eng, _ := EngineFor(a.Prop)
	if eng == nil {
		fmt.Fprintf(os.Stderr, "no engine for %s\n", a.Prop)
		return 2
	}
	out, err := os.OpenFile(a.Out, os.O_CREATE|os.O_WRONLY|os.O_APPEND, 0o644)
	if err != nil {
		fmt.Fprintln(os.Stderr, err)
		return 2
	}
	defer out.Close()
	prog, err := os.OpenFile(a.Progress, os.O_CREATE|os.O_WRONLY|os.O_APPEND, 0o644)
	if err != nil {
		fmt.Fprintln(os.Stderr, err)
		return 2
	}
	defer prog.Close()
	if a.CPULimit <= 0 {
		a.CPULimit = 60
	}

	// watchdog: CPU time of the current case and heap size; decides on process CPU, not wall clock.
	go func() {
		sample := []metrics.Sample{{Name: "/memory/classes/heap/objects:bytes"}}
		for {
			time.Sleep(250 * time.Millisecond)
			st := curCaseStartCPU.Load()
			if st == 0 {
				continue
			}
			used := cpuNow() - time.Duration(st)
			metrics.Read(sample)
			heap := sample[0].Value.Uint64()
			if used > time.Duration(a.CPULimit)*time.Second || heap > 8<<30 {
				kind := "HANG"
				if heap > 8<<30 {
					kind = "OOM"
				}
				fmt.Fprintf(prog, "%s %d cpu=%s heap=%d\n", kind, curCaseIdx.Load(), used, heap)
				prog.Sync()
				buf := make([]byte, 1<<20)
				n := runtime.Stack(buf, true)
				os.Stderr.Write(buf[:n])
				os.Exit(3)
			}
		}
	}()

	w := bufio.NewWriter(out)
	runOne := func(idx int, c *Case) {
		fmt.Fprintf(prog, "BEGIN %d %s\n", idx, c.Name)
		curCaseIdx.Store(int64(idx))
		t0 := cpuNow()
		curCaseStartCPU.Store(int64(t0) + 1)
		if f := os.Getenv("VERIF_TEST_DIE_ONCE"); f != "" && strings.HasPrefix(f, strconv.Itoa(idx)+":") {
			// self-test of the parent's handling of a worker death that does not reproduce (flag file = "idx:path")
			if _, err := os.Stat(f[strings.Index(f, ":")+1:]); err != nil {
				_ = os.WriteFile(f[strings.Index(f, ":")+1:], []byte("x"), 0o644)
				fmt.Fprintf(prog, "HANG %d cpu=simulated heap=0\n", idx)
				prog.Sync()
				os.Exit(3)
			}
		}
		res := safeCheck(eng, a.Prop, a.Tier, c)
		curCaseStartCPU.Store(0)
		res.Index = idx
		res.Name = c.Name
		res.Hash = c.Hash()
		if len(res.Tags) == 0 {
			res.Tags = c.Tags
		}
		res.CPUms = int64((cpuNow() - t0) / time.Millisecond)
		b, _ := json.Marshal(res)
		w.Write(b)
		w.WriteByte('\n')
		w.Flush()
		fmt.Fprintf(prog, "END %d\n", idx)
	}

	if a.CaseFile != "" {
		b, err := os.ReadFile(a.CaseFile)
		if err != nil {
			fmt.Fprintln(os.Stderr, err)
			return 2
		}
		var c Case
		if err := json.Unmarshal(b, &c); err != nil {
			fmt.Fprintln(os.Stderr, err)
			return 2
		}
		runOne(0, &c)
		return 0
	}
	if a.Only >= 0 {
		runOne(a.Only, eng.Gen(a.Prop, a.Tier, a.Seed, a.Only))
		return 0
	}
	filter := os.Getenv("VERIF_FILTER") // development aid: only cases whose name contains this string
	for idx := a.Start; idx < a.N; idx += a.Stride {
		c := safeGen(eng, a.Prop, a.Tier, a.Seed, idx)
		if c == nil {
			fmt.Fprintf(prog, "BEGIN %d gen-panic\nEND %d\n", idx, idx)
			b, _ := json.Marshal(&Result{Index: idx, Name: "gen-panic", Inconclusive: []string{"generator panicked"}})
			w.Write(b)
			w.WriteByte('\n')
			w.Flush()
			continue
		}
		if filter != "" && !strings.Contains(c.Name, filter) {
			fmt.Fprintf(prog, "BEGIN %d filtered\nEND %d\n", idx, idx)
			b, _ := json.Marshal(&Result{Index: idx, Name: c.Name, Skipped: "filtered"})
			w.Write(b)
			w.WriteByte('\n')
			w.Flush()
			continue
		}
		runOne(idx, c)
	}
	return 0
}

// safeCheck catches panics of the harness itself (library panics are caught closer, by Call).
func safeCheck(eng Engine, prop, tier string, c *Case) (res *Result) {
	defer func() {
		if r := recover(); r != nil {
			buf := make([]byte, 1<<14)
			buf = buf[:runtime.Stack(buf, false)]
			res = &Result{Inconclusive: []string{fmt.Sprintf("harness panic: %v\n%s", r, buf)}}
		}
	}()
	return eng.Check(prop, tier, c)
}

func safeGen(eng Engine, prop, tier string, seed uint64, idx int) (c *Case) {
	defer func() {
		if r := recover(); r != nil {
			fmt.Fprintf(os.Stderr, "generator panic at index %d: %v\n", idx, r)
			c = nil
		}
	}()
	return eng.Gen(prop, tier, seed, idx)
}
