package runner

import (
	"bufio"
	"encoding/json"
	"fmt"
	"os"
	"os/exec"
	"path/filepath"
	"regexp"
	"sort"
	"strconv"
	"strings"
	"sync"
	"time"
)

type RunArgs struct {
	Prop, Tier string
	Seed       uint64
	VerifDir   string // /verif
	Workers    int
	Replay     string // replay dir (optional)
	RepoDir    string
}

type crashRec struct {
	idx    int
	kind   string // fatal | hang | oom
	stderr string
	exit   string
}

type knownFile struct {
	Open []struct {
		Property  string `json:"property"`
		Signature string `json:"signature"`
		What      string `json:"what"`
	} `json:"open"`
	Fixed []struct {
		Property string `json:"property"`
		Commit   string `json:"commit"`
		What     string `json:"what"`
	} `json:"fixed"`
}

func self() string {
	p, err := os.Executable()
	if err != nil {
		return os.Args[0]
	}
	return p
}

func spawn(args []string, stderrPath string) (exitCode int, err error) {
	cmd := exec.Command(self(), args...)
	f, e := os.Create(stderrPath)
	if e != nil {
		return -1, e
	}
	defer f.Close()
	cmd.Stderr = f
	cmd.Stdout = f
	if d := os.Getenv("VERIF_COVERDIR"); d != "" {
		cmd.Env = append(os.Environ(), "GOCOVERDIR="+d)
	}
	if g := os.Getenv("GORACE"); g != "" && !strings.Contains(g, "log_path=") {
		cmd.Env = append(os.Environ(), "GORACE="+g+" exitcode=0 log_path="+filepath.Join(os.Getenv("VERIF_SCRATCH"), "race"))
	}
	err = cmd.Run()
	if err == nil {
		return 0, nil
	}
	if ee, ok := err.(*exec.ExitError); ok {
		return ee.ExitCode(), nil
	}
	return -1, err
}

func workerArgs(a RunArgs, start, stride, n, only int, caseFile, out, prog string, cpu int) []string {
	return []string{"worker", "-prop", a.Prop, "-tier", a.Tier, "-seed", strconv.FormatUint(a.Seed, 10),
		"-start", strconv.Itoa(start), "-stride", strconv.Itoa(stride), "-n", strconv.Itoa(n),
		"-only", strconv.Itoa(only), "-case", caseFile, "-out", out, "-progress", prog, "-cpu", strconv.Itoa(cpu)}
}

// lastOpen returns the index of the last BEGIN without END in a progress file, and a HANG/OOM marker if present.
func lastOpen(progress string) (idx int, marker string) {
	idx = -1
	f, err := os.Open(progress)
	if err != nil {
		return
	}
	defer f.Close()
	sc := bufio.NewScanner(f)
	sc.Buffer(make([]byte, 1<<20), 1<<20)
	for sc.Scan() {
		fs := strings.Fields(sc.Text())
		if len(fs) < 2 {
			continue
		}
		n, _ := strconv.Atoi(fs[1])
		switch fs[0] {
		case "BEGIN":
			idx = n
		case "END":
			if n == idx {
				idx = -1
			}
		case "HANG", "OOM":
			marker = fs[0]
		}
	}
	return
}

func tail(path string, n int) string {
	b, _ := os.ReadFile(path)
	if len(b) > n {
		b = b[len(b)-n:]
	}
	return string(b)
}

func head(path string, n int) string {
	b, _ := os.ReadFile(path)
	if len(b) > n {
		b = b[:n]
	}
	return string(b)
}

var rxFatal = regexp.MustCompile(`(?m)^(fatal error: .*|runtime: goroutine stack exceeds.*|panic: .*)$`)
var rxGoFrame = regexp.MustCompile(`(?m)^(github\.com/go-openapi/analysis\S*)\(`)

// crashSig extracts the kind of fatal error and the innermost in-module frame from a goroutine dump.
func crashSig(stderr string) (msg, site string) {
	msg = "process died"
	if m := rxFatal.FindString(stderr); m != "" {
		msg = m
	}
	site = "unknown"
	for _, m := range rxGoFrame.FindAllStringSubmatch(stderr, -1) {
		if strings.Contains(m[1], "verifhook") {
			continue
		}
		site = strings.TrimPrefix(m[1], "github.com/go-openapi/analysis")
		break
	}
	return
}

// Run is the parent: it distributes the case list over worker processes, attributes crashes and hangs,
// matches violations against the known-findings file, writes replays and the evidence file.
func Run(a RunArgs) int {
	t0 := time.Now()
	eng, engName := EngineFor(a.Prop)
	if eng == nil {
		fmt.Printf("INCONCLUSIVE property=%s reason=no engine\n", a.Prop)
		return 2
	}
	info := eng.Info(a.Prop, a.Tier)
	tmp, err := os.MkdirTemp("", "vcheck-"+a.Prop+"-")
	if err != nil {
		fmt.Printf("INCONCLUSIVE property=%s reason=%v\n", a.Prop, err)
		return 2
	}
	defer os.RemoveAll(tmp)
	os.Setenv("VERIF_SCRATCH", tmp)
	if os.Getenv("VERIF_COVER") != "" {
		cd := filepath.Join(tmp, "cov")
		if keep := os.Getenv("VERIF_COVER_KEEP"); keep != "" {
			// development aid: keep the raw counters of this run (merged later with "go tool covdata")
			cd = filepath.Join(keep, a.Prop)
		}
		_ = os.MkdirAll(cd, 0o755)
		os.Setenv("VERIF_COVERDIR", cd)
		os.Setenv("GOCOVERDIR", cd)
	}

	var results []*Result
	var crashes []crashRec
	var inconcl []string

	if a.Replay != "" {
		os.Setenv("VERIF_DIAG", "1")
		cf := filepath.Join(a.Replay, "case.json")
		out, prog, se := filepath.Join(tmp, "r.out"), filepath.Join(tmp, "r.prog"), filepath.Join(tmp, "r.err")
		code, _ := spawn(workerArgs(a, 0, 1, 1, -1, cf, out, prog, 120), se)
		results = append(results, readResults(out)...)
		if code != 0 {
			_, marker := lastOpen(prog)
			kind := "fatal"
			if marker == "HANG" {
				kind = "hang"
			} else if marker == "OOM" {
				kind = "oom"
			}
			crashes = append(crashes, crashRec{idx: 0, kind: kind, stderr: head(se, 1<<16), exit: strconv.Itoa(code)})
		}
	} else {
		n := eng.NumCases(a.Prop, a.Tier, a.Seed)
		W := a.Workers
		if W > n {
			W = n
		}
		if W < 1 {
			W = 1
		}
		var mu sync.Mutex
		var wg sync.WaitGroup
		for w := 0; w < W; w++ {
			wg.Add(1)
			go func(w int) {
				defer wg.Done()
				start := w
				outside := 0
				for attempt := 0; start < n; attempt++ {
					out := filepath.Join(tmp, fmt.Sprintf("w%d.%d.out", w, attempt))
					prog := filepath.Join(tmp, fmt.Sprintf("w%d.%d.prog", w, attempt))
					se := filepath.Join(tmp, fmt.Sprintf("w%d.%d.err", w, attempt))
					code, err := spawn(workerArgs(a, start, W, n, -1, "", out, prog, 60), se)
					for retry := 0; err != nil && retry < 5; retry++ {
						// the process could not be started (e.g. fork failure on a loaded machine): nothing ran, try again
						time.Sleep(time.Duration(2+retry*3) * time.Second)
						code, err = spawn(workerArgs(a, start, W, n, -1, "", out, prog, 60), se)
					}
					rs := readResults(out)
					mu.Lock()
					results = append(results, rs...)
					mu.Unlock()
					if err != nil {
						mu.Lock()
						inconcl = append(inconcl, fmt.Sprintf("worker %d could not be started: %v", w, err))
						mu.Unlock()
						return
					}
					if code == 0 {
						return
					}
					idx, marker := lastOpen(prog)
					if idx < 0 {
						// died between two cases (killed from outside?): resume after the last finished case, a few times at most
						outside++
						if outside <= 3 {
							if len(rs) > 0 {
								start = rs[len(rs)-1].Index + W
							}
							continue
						}
						mu.Lock()
						inconcl = append(inconcl, fmt.Sprintf("worker %d exited %d outside any case: %s", w, code, tail(se, 2000)))
						mu.Unlock()
						return
					}
					kind := "fatal"
					if marker == "HANG" {
						kind = "hang"
					} else if marker == "OOM" {
						kind = "oom"
					}
					mu.Lock()
					crashes = append(crashes, crashRec{idx: idx, kind: kind, stderr: head(se, 1<<16), exit: strconv.Itoa(code)})
					mu.Unlock()
					start = idx + W
				}
			}(w)
		}
		wg.Wait()
	}

	// confirm crashes by re-running the single case in fresh processes
	var confirmed []crashRec
	transient := 0
	for _, c := range crashes {
		if a.Replay != "" {
			confirmed = append(confirmed, c)
			continue
		}
		tries, need := 20, 1
		cpu := 60
		if c.kind == "hang" {
			tries, need, cpu = 2, 2, 120
		}
		got := 0
		last := c
		var rerun []*Result
		for t := 0; t < tries && got < need; t++ {
			out, prog, se := filepath.Join(tmp, "c.out"), filepath.Join(tmp, "c.prog"), filepath.Join(tmp, "c.err")
			os.Remove(out)
			os.Remove(prog)
			code, _ := spawn(workerArgs(a, 0, 1, 0, c.idx, "", out, prog, cpu), se)
			if code != 0 {
				got++
				last.stderr = head(se, 1<<16)
			} else {
				rerun = readResults(out)
				if c.kind == "hang" {
					break
				}
			}
		}
		if got >= need {
			confirmed = append(confirmed, last)
		} else {
			// keep what the dying worker said (goroutine dump of the watchdog, fatal error text): the only trace of it
			note := ""
			if a.VerifDir != "" && os.Getenv("VERIF_NO_EVIDENCE") == "" {
				d := filepath.Join(a.VerifDir, "replays", a.Prop, fmt.Sprintf("unreproduced-%s-%d-%d", a.Tier, a.Seed, c.idx))
				if os.MkdirAll(d, 0o755) == nil {
					_ = os.WriteFile(filepath.Join(d, "stderr.txt"), []byte(c.stderr), 0o644)
					if cs := eng.Gen(a.Prop, a.Tier, a.Seed, c.idx); cs != nil {
						if b, err := json.MarshalIndent(cs, "", " "); err == nil {
							_ = os.WriteFile(filepath.Join(d, "case.json"), b, 0o644)
						}
					}
					note = " (worker output kept in " + d + ")"
				}
			}
			// the case itself completed when run again in a fresh process: that execution is its result. The death of the
			// first worker stays on record (evidence key transient_worker_deaths); more than two in one run is not
			// something to explain away and makes the run inconclusive.
			transient++
			for _, r := range rerun {
				if r.Index == c.idx {
					r.Ev("transient_worker_deaths", 1)
					r.Set("transient_worker_deaths", fmt.Sprintf("case %d: %s did not reproduce (%d/%d)%s", c.idx, c.kind, got, need, note))
					results = append(results, r)
					break
				}
			}
			fmt.Printf("NOTE property=%s case %d: a worker died (%s) but the case completes when run again (%d/%d re-runs died)%s\n", a.Prop, c.idx, c.kind, got, tries, note)
			if transient > 2 {
				inconcl = append(inconcl, fmt.Sprintf("case %d: %s did not reproduce (%d/%d)%s: %s", c.idx, c.kind, got, need, note, firstLines(c.stderr, 3)))
			}
		}
	}
	for _, c := range confirmed {
		msg, site := crashSig(c.stderr)
		r := &Result{Index: c.idx, Evals: 1}
		if a.Replay == "" {
			cs := eng.Gen(a.Prop, a.Tier, a.Seed, c.idx)
			r.Name, r.Hash, r.Tags = cs.Name, cs.Hash(), cs.Tags
		} else {
			r.Name = "replay"
		}
		r.Violate("process-"+c.kind, fmt.Sprintf("process-%s:%s:%s", c.kind, site, MsgClass(msg)), "", msg+" at "+site+"\n"+c.stderr)
		results = append(results, r)
	}

	sort.Slice(results, func(i, j int) bool { return results[i].Index < results[j].Index })
	return report(a, eng, engName, info, results, inconcl, t0)
}

func readResults(path string) []*Result {
	f, err := os.Open(path)
	if err != nil {
		return nil
	}
	defer f.Close()
	var rs []*Result
	sc := bufio.NewScanner(f)
	sc.Buffer(make([]byte, 1<<24), 1<<26)
	for sc.Scan() {
		var r Result
		if json.Unmarshal(sc.Bytes(), &r) == nil {
			rs = append(rs, &r)
		}
	}
	return rs
}
