package runner

import (
	"encoding/json"
	"fmt"
	"os"
	"os/exec"
	"path/filepath"
	"sort"
	"strings"
	"time"
)

func sampleOf(c *Case) map[string]any {
	s := map[string]any{"name": c.Name, "tags": c.Tags}
	if len(c.Opts) > 0 {
		s["opts"] = c.Opts
	}
	if c.Root != "" {
		s["root"] = c.Root
	}
	if len(c.Files) > 0 {
		fs := map[string]string{}
		for k, v := range c.Files {
			if len(v) > 700 {
				v = v[:700] + fmt.Sprintf("…(+%d bytes)", len(v)-700)
			}
			fs[k] = v
		}
		s["files"] = fs
	}
	if len(c.Extra) > 0 {
		b, _ := json.Marshal(c.Extra)
		if len(b) > 700 {
			s["extra"] = string(b[:700]) + "…"
		} else {
			s["extra"] = c.Extra
		}
	}
	return s
}

func loadKnown(dir string) knownFile {
	var k knownFile
	b, err := os.ReadFile(filepath.Join(dir, "known_findings.json"))
	if err == nil {
		_ = json.Unmarshal(b, &k)
	}
	return k
}

func report(a RunArgs, eng Engine, engName string, info Info, results []*Result, inconcl []string, t0 time.Time) int {
	var caseInconcl []string
	known := loadKnown(a.VerifDir)
	isMax := map[string]bool{}
	for _, k := range info.MaxEventKeys {
		isMax[k] = true
	}

	evals, skipped := 0, 0
	distinct := map[string]bool{}
	events := map[string]int{}
	sets := map[string]map[string]bool{}
	cells := map[string]bool{}
	tagCount := map[string]int{}
	var ntIdx []int
	type vrec struct {
		r *Result
		v Violation
	}
	var viols []vrec
	knownSeen := map[string]string{}
	seenIdx := map[int]bool{}

	for _, r := range results {
		seenIdx[r.Index] = true
		evals += r.Evals
		if r.Skipped != "" {
			skipped++
			events["skipped:"+r.Skipped]++
		}
		if r.Nontrivial && !distinct[r.Hash] {
			distinct[r.Hash] = true
			if len(ntIdx) < 3 {
				ntIdx = append(ntIdx, r.Index)
			}
		}
		for k, n := range r.Events {
			if isMax[k] || strings.HasPrefix(k, "max_") {
				if n > events[k] {
					events[k] = n
				}
			} else {
				events[k] += n
			}
		}
		for k, vs := range r.Sets {
			if sets[k] == nil {
				sets[k] = map[string]bool{}
			}
			for _, v := range vs {
				sets[k][v] = true
			}
		}
		for _, c := range r.Cells {
			cells[c] = true
		}
		for _, t := range r.Tags {
			tagCount[t]++
		}
		for _, m := range r.Inconclusive {
			caseInconcl = append(caseInconcl, fmt.Sprintf("case %d (%s): %s", r.Index, r.Name, m))
		}
		for _, v := range r.Violations {
			matched := false
			for _, k := range known.Open {
				if k.Property == a.Prop && k.Signature == v.Sig {
					knownSeen[k.Signature] = k.What
					matched = true
					events["known_finding_hits"]++
					break
				}
			}
			if !matched {
				viols = append(viols, vrec{r, v})
			}
		}
	}
	// A case the harness could not judge (its generator failed, its own validators disagree) is inconclusive for that
	// case only: it is listed in the evidence and on the output; the run as a whole becomes inconclusive when there are
	// more than a handful of them (more than 2 and more than one case in 2000).
	if len(caseInconcl) > 0 {
		events["cases_not_judged"] = len(caseInconcl)
		for i, m := range caseInconcl {
			if i < 5 {
				fmt.Printf("NOTE property=%s not judged: %s\n", a.Prop, firstLines(m, 2))
			}
		}
		if len(caseInconcl) > 2 && len(caseInconcl)*2000 > len(results) {
			inconcl = append(inconcl, caseInconcl...)
		}
	}
	if a.Replay == "" {
		n := eng.NumCases(a.Prop, a.Tier, a.Seed)
		missing := 0
		for i := 0; i < n; i++ {
			if !seenIdx[i] {
				missing++
			}
		}
		if missing > 0 {
			inconcl = append(inconcl, fmt.Sprintf("%d of %d cases produced no result", missing, n))
		}
		events["cases"] = n
	}
	if info.MinSuccessPct > 0 && events["calls"] > 0 {
		if events["ok_calls"]*100 < info.MinSuccessPct*events["calls"] {
			inconcl = append(inconcl, fmt.Sprintf("only %d of %d calls succeeded (< %d%%): see C04/C09 for why", events["ok_calls"], events["calls"], info.MinSuccessPct))
		}
	}
	if events["calls"] > 10 && events["hooks_unreached"] == events["calls"] {
		inconcl = append(inconcl, "no hook event was received during any call: the tree was not built with -tags verif or the hooks were removed; loop and recursion budgets were not in force")
	}
	if a.Replay == "" && len(distinct) < 2 && len(viols) == 0 {
		inconcl = append(inconcl, "fewer than 2 distinct non-trivial cases observed")
	}

	// replays, one per distinct signature
	bySig := map[string][]vrec{}
	var sigOrder []string
	for _, v := range viols {
		if _, ok := bySig[v.v.Sig]; !ok {
			sigOrder = append(sigOrder, v.v.Sig)
		}
		bySig[v.v.Sig] = append(bySig[v.v.Sig], v)
	}
	var vlines []string
	for i, sig := range sigOrder {
		if i >= 10 {
			break
		}
		v := bySig[sig][0]
		dir := a.Replay
		if a.Replay == "" {
			base := filepath.Join(a.VerifDir, "replays")
			if os.Getenv("VERIF_NO_EVIDENCE") != "" {
				base = filepath.Join(os.TempDir(), "vcheck-replays-scratch")
			}
			dir = filepath.Join(base, a.Prop, fmt.Sprintf("%s-%d", v.r.Hash[:10], v.r.Index))
			_ = os.MkdirAll(dir, 0o755)
			c := eng.Gen(a.Prop, a.Tier, a.Seed, v.r.Index)
			cb, _ := json.MarshalIndent(c, "", " ")
			_ = os.WriteFile(filepath.Join(dir, "case.json"), cb, 0o644)
			for name, content := range c.Files {
				p := filepath.Join(dir, "files", name)
				_ = os.MkdirAll(filepath.Dir(p), 0o755)
				_ = os.WriteFile(p, []byte(content), 0o644)
			}
		}
		vb, _ := json.MarshalIndent(map[string]any{
			"property": a.Prop, "tier": a.Tier, "seed": a.Seed, "index": v.r.Index, "case": v.r.Name,
			"signature": sig, "occurrences": len(bySig[sig]), "violations": v.r.Violations,
		}, "", " ")
		_ = os.WriteFile(filepath.Join(dir, "violation.json"), vb, 0o644)
		vlines = append(vlines, fmt.Sprintf("VIOLATION property=%s replay=%s", a.Prop, dir))
		nl := 6
		if a.Replay != "" {
			nl = 40
		}
		fmt.Printf("  violation sig=%q case=%s opt=%s (%d occurrences)\n    %s\n", sig, v.r.Name, v.v.Opt, len(bySig[sig]), firstLines(v.v.Detail, nl))
	}

	wall := time.Since(t0).Seconds()
	var knownList []string
	for sig, what := range knownSeen {
		knownList = append(knownList, sig)
		fmt.Printf("KNOWN-FINDING: property=%s %s [%s]\n", a.Prop, what, sig)
	}
	sort.Strings(knownList)

	if a.Replay == "" && os.Getenv("VERIF_NO_EVIDENCE") == "" {
		var samples []any
		for _, i := range ntIdx {
			samples = append(samples, sampleOf(eng.Gen(a.Prop, a.Tier, a.Seed, i)))
		}
		if len(samples) == 0 && len(results) > 0 {
			samples = append(samples, sampleOf(eng.Gen(a.Prop, a.Tier, a.Seed, results[0].Index)))
		}
		setOut := map[string]any{}
		for k, m := range sets {
			var xs []string
			for x := range m {
				xs = append(xs, x)
			}
			sort.Strings(xs)
			o := map[string]any{"distinct": len(xs)}
			if len(xs) > 40 {
				o["first"] = xs[:40]
			} else {
				o["all"] = xs
			}
			setOut[k] = o
		}
		cov := map[string]any{
			"evaluations":         evals,
			"distinct_nontrivial": len(distinct),
			"rule":                info.Rule,
			"samples":             samples,
			"events":              events,
			"sets":                setOut,
			"cases_run":           len(results),
			"cases_skipped":       skipped,
			"engine":              engName,
			"known_findings_seen": knownList,
			"inconclusive":        inconcl,
			"cases_not_judged":    caseInconcl,
			"case_tags":           tagCount,
		}
		if len(info.AllCells) > 0 || len(cells) > 0 {
			var never, hitl []string
			for _, c := range info.AllCells {
				if !cells[c] {
					never = append(never, c)
				}
			}
			for c := range cells {
				hitl = append(hitl, c)
			}
			sort.Strings(hitl)
			fc := map[string]any{"hit": len(cells), "never_hit": never}
			if len(info.AllCells) > 0 {
				// "total" counts the cells of the systematic table; cells that only random compositions produce
				// (features combined in one bundle) come on top of it
				fc["total"] = len(info.AllCells)
				fc["hit_of_total"] = len(info.AllCells) - len(never)
				fc["hit_outside_the_systematic_table"] = len(cells) - (len(info.AllCells) - len(never))
				delete(fc, "hit")
			}
			if len(hitl) <= 400 {
				fc["hit_list"] = hitl
			}
			cov["feature_cells"] = fc
		}
		if cd := os.Getenv("VERIF_COVERDIR"); cd != "" {
			pct, uncovered := coverageOf(cd)
			if len(pct) > 0 {
				cov["coverage_pct"] = pct
				cov["uncovered_funcs"] = uncovered
			}
		}
		ev := map[string]any{
			"property_id": a.Prop,
			"tier":        a.Tier,
			"seed":        a.Seed,
			"level":       info.Level,
			"coverage":    cov,
			"assumptions": info.Assumptions,
			"wall_s":      wall,
			"violations":  len(sigOrder),
		}
		eb, _ := json.MarshalIndent(ev, "", " ")
		_ = os.MkdirAll(filepath.Join(a.VerifDir, "evidence"), 0o755)
		if err := os.WriteFile(filepath.Join(a.VerifDir, "evidence", a.Prop+".json"), eb, 0o644); err != nil {
			inconcl = append(inconcl, "cannot write evidence: "+err.Error())
		}
	}

	fmt.Printf("[%s %s seed=%d engine=%s] cases=%d evaluations=%d distinct_nontrivial=%d cells=%d violations=%d known=%d inconclusive=%d wall=%.1fs\n",
		a.Prop, a.Tier, a.Seed, engName, len(results), evals, len(distinct), len(cells), len(sigOrder), len(knownSeen), len(inconcl), wall)
	if len(vlines) > 0 {
		for i, m := range inconcl {
			if i >= 3 {
				break
			}
			fmt.Printf("  (also inconclusive: %s)\n", firstLines(m, 6))
		}
		for _, l := range vlines {
			fmt.Println(l)
		}
		return 1
	}
	if len(inconcl) > 0 {
		for i, m := range inconcl {
			if i >= 5 {
				break
			}
			fmt.Printf("INCONCLUSIVE property=%s reason=%s\n", a.Prop, firstLines(m, 12))
		}
		return 2
	}
	return 0
}

func firstLines(s string, n int) string {
	out, cnt := 0, 0
	for i, c := range s {
		if c == '\n' {
			cnt++
			if cnt >= n {
				out = i
				return s[:out]
			}
		}
	}
	return s
}

// coverageOf summarises the Go coverage counters written by the workers (thorough tier, -cover build):
// statement coverage per library package, and the library functions never entered by this run.
func coverageOf(dir string) (map[string]float64, []string) {
	pct := map[string]float64{}
	out, err := exec.Command("go", "tool", "covdata", "percent", "-i="+dir).Output()
	if err != nil {
		return nil, nil
	}
	for _, ln := range strings.Split(string(out), "\n") {
		fs := strings.Fields(ln)
		if len(fs) >= 3 && strings.HasPrefix(fs[0], "github.com/go-openapi/analysis") {
			for i, f := range fs {
				if f == "coverage:" && i+1 < len(fs) {
					var v float64
					fmt.Sscanf(strings.TrimSuffix(fs[i+1], "%"), "%f", &v)
					pct[fs[0]] = v
				}
			}
		}
	}
	var uncovered []string
	out, err = exec.Command("go", "tool", "covdata", "func", "-i="+dir).Output()
	if err == nil {
		for _, ln := range strings.Split(string(out), "\n") {
			fs := strings.Fields(ln)
			if len(fs) == 3 && strings.HasPrefix(fs[0], "github.com/go-openapi/analysis") && fs[2] == "0.0%" && !strings.Contains(fs[0], "verifhook") {
				f := strings.TrimPrefix(fs[0], "github.com/go-openapi/analysis/")
				if i := strings.Index(f, ":"); i > 0 {
					f = f[:i]
				}
				uncovered = append(uncovered, f+":"+fs[1])
			}
		}
	}
	sort.Strings(uncovered)
	return pct, uncovered
}
