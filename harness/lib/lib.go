// Package lib is the thin boundary to the go-openapi object model: loading JSON text into spec.Swagger,
// the serialization normal form, and marshalling back to generic JSON.
package lib

import (
	"encoding/json"
	"fmt"

	"github.com/go-openapi/spec"

	"verif/harness/jx"
)

// Load unmarshals JSON text into a fresh spec.Swagger.
func Load(text []byte) (*spec.Swagger, error) {
	var sw spec.Swagger
	if err := json.Unmarshal(text, &sw); err != nil {
		return nil, err
	}
	return &sw, nil
}

func MustLoad(text []byte) *spec.Swagger {
	sw, err := Load(text)
	if err != nil {
		panic(fmt.Sprintf("lib.MustLoad: %v", err))
	}
	return sw
}

// Dump marshals the document and parses it into generic JSON.
func Dump(sw *spec.Swagger) (jx.Obj, []byte, error) {
	b, err := json.Marshal(sw)
	if err != nil {
		return nil, nil, err
	}
	v, err := jx.Parse(b)
	if err != nil {
		return nil, b, err
	}
	o, _ := v.(jx.Obj)
	return o, b, nil
}

// NormalForm is marshal(unmarshal(text)) as generic JSON: what the spec model retains of the text.
func NormalForm(text []byte) (jx.Obj, error) {
	sw, err := Load(text)
	if err != nil {
		return nil, err
	}
	o, _, err := Dump(sw)
	return o, err
}

// SchemaNormalForm does the same for a single schema.
func LoadSchema(text []byte) (*spec.Schema, error) {
	var s spec.Schema
	if err := json.Unmarshal(text, &s); err != nil {
		return nil, err
	}
	return &s, nil
}

// ToGeneric marshals any spec object to generic JSON.
func ToGeneric(v any) any {
	g, err := jx.Generic(v)
	if err != nil {
		return fmt.Sprintf("<<marshal error: %v>>", err)
	}
	return g
}
