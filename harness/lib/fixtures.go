package lib

import (
	"encoding/json"
	"os"
	"path/filepath"
	"sort"
	"strings"
	"sync"

	"github.com/go-openapi/swag"
)

// RepoDir is the tree under test (only used to read its fixtures as realistic inputs).
func RepoDir() string {
	if d := os.Getenv("VERIF_REPO"); d != "" {
		return d
	}
	return "/repo"
}

var fixOnce sync.Once
var fixList []string

// Fixtures lists the Swagger-looking fixture files of the repository (sorted, relative to the repo).
func Fixtures() []string {
	fixOnce.Do(func() {
		root := filepath.Join(RepoDir(), "fixtures")
		_ = filepath.Walk(root, func(p string, fi os.FileInfo, err error) error {
			if err != nil || fi.IsDir() {
				return nil
			}
			ext := strings.ToLower(filepath.Ext(p))
			if ext != ".json" && ext != ".yml" && ext != ".yaml" {
				return nil
			}
			if fi.Size() > 3<<20 {
				return nil
			}
			rel, _ := filepath.Rel(RepoDir(), p)
			fixList = append(fixList, rel)
			return nil
		})
		sort.Strings(fixList)
	})
	return fixList
}

// ReadFixtureJSON returns the fixture as JSON text (YAML converted), or nil if it is not a JSON object
// with a "swagger" key (i.e. not a document the spec model would load as a Swagger spec).
func ReadFixtureJSON(rel string) []byte {
	b, err := os.ReadFile(filepath.Join(RepoDir(), rel))
	if err != nil {
		return nil
	}
	ext := strings.ToLower(filepath.Ext(rel))
	if ext != ".json" {
		d, err := swag.BytesToYAMLDoc(b)
		if err != nil {
			return nil
		}
		j, err := swag.YAMLToJSON(d)
		if err != nil {
			return nil
		}
		b = j
	}
	var probe map[string]json.RawMessage
	if json.Unmarshal(b, &probe) != nil {
		return nil
	}
	if _, ok := probe["swagger"]; !ok {
		return nil
	}
	if _, err := Load(b); err != nil {
		return nil
	}
	return b
}
