// Package jx holds generic-JSON helpers used by every oracle: parsing, canonical rendering,
// RFC 6901 pointers, deep copies and seeded key-order permutation.
//
// Nothing in here calls go-openapi code.
package jx

import (
	"bytes"
	"encoding/json"
	"fmt"
	"math/rand/v2"
	"net/url"
	"reflect"
	"sort"
	"strconv"
	"strings"
)

type Obj = map[string]any
type Arr = []any

// Parse decodes JSON text into map[string]any / []any / string / float64 / bool / nil.
func Parse(b []byte) (any, error) {
	var v any
	dec := json.NewDecoder(bytes.NewReader(b))
	if err := dec.Decode(&v); err != nil {
		return nil, err
	}
	return v, nil
}

func MustParse(b []byte) any {
	v, err := Parse(b)
	if err != nil {
		panic(fmt.Sprintf("jx.MustParse: %v in %.200s", err, b))
	}
	return v
}

// Canon renders v with sorted keys (encoding/json order) and no HTML escaping.
func Canon(v any) []byte {
	var buf bytes.Buffer
	enc := json.NewEncoder(&buf)
	enc.SetEscapeHTML(false)
	if err := enc.Encode(v); err != nil {
		panic(err)
	}
	return bytes.TrimRight(buf.Bytes(), "\n")
}

func CanonS(v any) string { return string(Canon(v)) }

// Equal is JSON-value equality.
func Equal(a, b any) bool { return reflect.DeepEqual(norm(a), norm(b)) }

// norm maps typed values coming from Go structs to their generic form when needed.
func norm(v any) any {
	switch v.(type) {
	case nil, string, float64, bool, Obj, Arr:
		return v
	}
	return MustParse(Canon(v))
}

// Generic converts any Go value to generic JSON through encoding/json.
func Generic(v any) (any, error) {
	b, err := json.Marshal(v)
	if err != nil {
		return nil, err
	}
	return Parse(b)
}

func Clone(v any) any {
	switch t := v.(type) {
	case Obj:
		o := make(Obj, len(t))
		for k, x := range t {
			o[k] = Clone(x)
		}
		return o
	case Arr:
		a := make(Arr, len(t))
		for i, x := range t {
			a[i] = Clone(x)
		}
		return a
	}
	return v
}

func Keys(o Obj) []string {
	ks := make([]string, 0, len(o))
	for k := range o {
		ks = append(ks, k)
	}
	sort.Strings(ks)
	return ks
}

func AsObj(v any) Obj {
	o, _ := v.(Obj)
	return o
}

func AsArr(v any) Arr {
	a, _ := v.(Arr)
	return a
}

func AsStr(v any) string {
	s, _ := v.(string)
	return s
}

// CountNodes counts every value of a JSON tree.
func CountNodes(v any) int {
	n := 1
	switch t := v.(type) {
	case Obj:
		for _, x := range t {
			n += CountNodes(x)
		}
	case Arr:
		for _, x := range t {
			n += CountNodes(x)
		}
	}
	return n
}

// ---- RFC 6901 ----

func EscTok(s string) string {
	s = strings.ReplaceAll(s, "~", "~0")
	return strings.ReplaceAll(s, "/", "~1")
}

func UnescTok(s string) string {
	s = strings.ReplaceAll(s, "~1", "/")
	return strings.ReplaceAll(s, "~0", "~")
}

// Ptr renders tokens as a JSON pointer ("" for the root).
func Ptr(toks []string) string {
	var sb strings.Builder
	for _, t := range toks {
		sb.WriteByte('/')
		sb.WriteString(EscTok(t))
	}
	return sb.String()
}

// ParsePtr splits a (percent-decoded) JSON pointer into unescaped tokens.
func ParsePtr(p string) ([]string, error) {
	if p == "" {
		return nil, nil
	}
	if p[0] != '/' {
		return nil, fmt.Errorf("pointer %q does not start with /", p)
	}
	parts := strings.Split(p[1:], "/")
	for i := range parts {
		parts[i] = UnescTok(parts[i])
	}
	return parts, nil
}

// Get evaluates pointer tokens against a generic JSON value.
func Get(doc any, toks []string) (any, bool) {
	cur := doc
	for _, t := range toks {
		switch c := cur.(type) {
		case Obj:
			n, ok := c[t]
			if !ok {
				return nil, false
			}
			cur = n
		case Arr:
			i, err := strconv.Atoi(t)
			if err != nil || i < 0 || i >= len(c) || (len(t) > 1 && t[0] == '0') {
				return nil, false
			}
			cur = c[i]
		default:
			return nil, false
		}
	}
	return cur, true
}

// SplitRef splits a $ref string into its document part and its decoded pointer tokens.
// The fragment is percent-decoded first (RFC 3986), then split per RFC 6901.
func SplitRef(ref string) (file string, toks []string, err error) {
	file = ref
	frag := ""
	if i := strings.IndexByte(ref, '#'); i >= 0 {
		file, frag = ref[:i], ref[i+1:]
	}
	if f, e := url.PathUnescape(file); e == nil {
		file = f
	}
	dec, e := url.PathUnescape(frag)
	if e != nil {
		return file, nil, fmt.Errorf("bad percent-encoding in %q", ref)
	}
	toks, err = ParsePtr(dec)
	return file, toks, err
}

// ---- seeded rendering with permuted object keys ----

// Render writes v as JSON; when rng is non-nil the keys of every object are shuffled, otherwise sorted.
func Render(v any, rng *rand.Rand) []byte {
	var buf bytes.Buffer
	render(&buf, v, rng)
	return buf.Bytes()
}

func render(buf *bytes.Buffer, v any, rng *rand.Rand) {
	switch t := v.(type) {
	case Obj:
		ks := Keys(t)
		if rng != nil {
			rng.Shuffle(len(ks), func(i, j int) { ks[i], ks[j] = ks[j], ks[i] })
		}
		buf.WriteByte('{')
		for i, k := range ks {
			if i > 0 {
				buf.WriteByte(',')
			}
			buf.Write(Canon(k))
			buf.WriteByte(':')
			render(buf, t[k], rng)
		}
		buf.WriteByte('}')
	case Arr:
		buf.WriteByte('[')
		for i, x := range t {
			if i > 0 {
				buf.WriteByte(',')
			}
			render(buf, x, rng)
		}
		buf.WriteByte(']')
	default:
		buf.Write(Canon(v))
	}
}

// Diff returns the pointer of the first difference between two JSON values ("" if equal, ok=false).
func Diff(a, b any) (string, bool) {
	return diff(a, b, nil)
}

func diff(a, b any, at []string) (string, bool) {
	switch x := a.(type) {
	case Obj:
		y, ok := b.(Obj)
		if !ok {
			return Ptr(at) + " (type)", true
		}
		for _, k := range Keys(x) {
			if _, ok := y[k]; !ok {
				return Ptr(append(at, k)) + " (only left)", true
			}
			if d, ok := diff(x[k], y[k], append(at, k)); ok {
				return d, true
			}
		}
		for _, k := range Keys(y) {
			if _, ok := x[k]; !ok {
				return Ptr(append(at, k)) + " (only right)", true
			}
		}
		return "", false
	case Arr:
		y, ok := b.(Arr)
		if !ok {
			return Ptr(at) + " (type)", true
		}
		if len(x) != len(y) {
			return Ptr(at) + fmt.Sprintf(" (len %d vs %d)", len(x), len(y)), true
		}
		for i := range x {
			if d, ok := diff(x[i], y[i], append(at, strconv.Itoa(i))); ok {
				return d, true
			}
		}
		return "", false
	}
	if !reflect.DeepEqual(a, b) {
		return Ptr(at) + fmt.Sprintf(" (%.60s vs %.60s)", CanonS(a), CanonS(b)), true
	}
	return "", false
}

// Trunc shortens a string for evidence samples.
func Trunc(s string, n int) string {
	if len(s) <= n {
		return s
	}
	return s[:n] + fmt.Sprintf("…(+%d bytes)", len(s)-n)
}
