package oracle

import (
	"fmt"
	"sort"
	"strings"

	"verif/harness/jx"
)

// Bisim decides equality of the (possibly infinite, regular) schema trees obtained by unfolding $refs:
// position a in world A against position b in world B (B of DESIGN §5.2).
type Bisim struct {
	A, B *World
	// IgnoreMarkerAt: positions of world B (as strings) on which the x-go-gen-location marker is tolerated
	IgnoreMarkerAt map[string]bool
	assumed        map[string]bool
	RefsFollowedA  int
	RefsFollowedB  int
	Compared       int
}

func NewBisim(a, b *World) *Bisim {
	return &Bisim{A: a, B: b, IgnoreMarkerAt: map[string]bool{}, assumed: map[string]bool{}}
}

// Mismatch describes the first difference found.
type Mismatch struct {
	Kind   string // dangling-ref | label-differs | child-missing | child-added | kind-differs
	Path   string // keywords from the compared position down to the difference
	Detail string
}

func (m *Mismatch) Error() string { return fmt.Sprintf("%s at %s: %s", m.Kind, m.Path, m.Detail) }

func label(s jx.Obj, dropMarker bool) jx.Obj {
	l := jx.Obj{}
	for k, v := range s {
		if k == "$ref" {
			continue
		}
		if dropMarker && k == "x-go-gen-location" {
			continue
		}
		if IsSchemaKw(k) {
			switch v.(type) {
			case jx.Obj, jx.Arr:
				if k == "additionalProperties" || k == "additionalItems" || k == "not" || k == "items" || k == "definitions" || k == "properties" || k == "patternProperties" || k == "allOf" || k == "anyOf" || k == "oneOf" {
					continue
				}
			}
		}
		l[k] = v
	}
	return l
}

type child struct {
	key  string // "kw" or "kw/key"
	toks []string
}

func children(s jx.Obj) []child {
	var out []child
	EachChild(s, func(kw, key string, _ any) {
		if key == "" {
			out = append(out, child{kw, []string{kw}})
		} else {
			out = append(out, child{kw + "/" + key, []string{kw, key}})
		}
	})
	return out
}

// Eq compares the schema at a (world A) with the schema at b (world B).
func (bs *Bisim) Eq(a, b Pos) *Mismatch { return bs.eq(a, b, "") }

func (bs *Bisim) eq(a, b Pos, at string) *Mismatch {
	a2, an, ha, err := bs.A.Deref(a)
	bs.RefsFollowedA += ha
	if err != nil {
		return &Mismatch{"dangling-ref-before", at, err.Error()}
	}
	b2, bn, hb, err := bs.B.Deref(b)
	bs.RefsFollowedB += hb
	if err != nil {
		return &Mismatch{"dangling-ref", at, err.Error()}
	}
	key := a2.String() + " ~ " + b2.String()
	if bs.assumed[key] {
		return nil
	}
	bs.assumed[key] = true
	bs.Compared++
	la, lb := label(an, false), label(bn, bs.IgnoreMarkerAt[b2.String()])
	if !jx.Equal(la, lb) {
		d, _ := jx.Diff(la, lb)
		kind := "label-differs"
		if _, ok := lb["x-go-gen-location"]; ok {
			if _, ok2 := la["x-go-gen-location"]; !ok2 {
				ll := jx.Clone(lb).(jx.Obj)
				delete(ll, "x-go-gen-location")
				if jx.Equal(la, ll) {
					kind = "marker-misplaced"
				}
			}
		}
		return &Mismatch{kind, at, fmt.Sprintf("%s vs %s: %s", a2, b2, d)}
	}
	ca, cb := children(an), children(bn)
	ma, mb := map[string][]string{}, map[string][]string{}
	var ka []string
	for _, c := range ca {
		ma[c.key] = c.toks
		ka = append(ka, c.key)
	}
	for _, c := range cb {
		mb[c.key] = c.toks
	}
	sort.Strings(ka)
	for _, k := range ka {
		if _, ok := mb[k]; !ok {
			return &Mismatch{"child-missing", at + "/" + k, fmt.Sprintf("%s has sub-schema %s, %s has not", a2, k, b2)}
		}
	}
	for k := range mb {
		if _, ok := ma[k]; !ok {
			kind := "child-added"
			if strings.HasPrefix(k, "properties/") {
				kind = "property-added"
			}
			return &Mismatch{kind, at + "/" + k, fmt.Sprintf("%s has sub-schema %s, %s has not", b2, k, a2)}
		}
	}
	for _, k := range ka {
		if m := bs.eq(a2.Child(ma[k]...), b2.Child(mb[k]...), at+"/"+k); m != nil {
			return m
		}
	}
	return nil
}
