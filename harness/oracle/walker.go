// Package oracle holds the independent "second opinion" code: a section-aware walker over generic-JSON
// Swagger 2.0 documents, a $ref resolver, the bisimulation of $ref-unfolded documents and reference models.
//
// It is written against the Swagger 2.0 / JSON-schema draft 4 structure and does not call go-openapi/analysis.
package oracle

import (
	"sort"
	"strconv"
	"strings"

	"verif/harness/jx"
)

var Methods = []string{"get", "put", "post", "delete", "options", "head", "patch"}

// SchemaPos is one schema position of a document.
type SchemaPos struct {
	Ptr       []string
	Node      jx.Obj
	Container string // definition | sharedParam | sharedResponse | opParam | pathParam | defaultResponse | codeResponse
	Depth     int    // 0 = root of its container
	TopLevel  bool   // direct entry of #/definitions
	Name      string // last pointer token
	Holder    string // keyword through which it hangs off its parent ("" at depth 0)
}

type RefOcc struct {
	Ptr       []string
	Ref       string
	Kind      string // schema | parameter | response | pathitem | paramItems | headerItems | sharedParamSelf | sharedResponseSelf
	Container string
	Holder    string
	Depth     int
}

type ValOcc struct {
	Ptr   []string
	Value any    // pattern string or enum array
	Cat   string // parameter | header | items | schema
	Where string // finer location, for feature cells
}

type ParamOcc struct {
	Ptr   []string
	Node  jx.Obj
	Level string // shared | path | op
}

type RespOcc struct {
	Ptr  []string
	Node jx.Obj
	Kind string // shared | default | code
}

type OpOcc struct {
	Method string // lower case
	Path   string
	Node   jx.Obj
	Ptr    []string
}

type Walk struct {
	Schemas  []SchemaPos
	Refs     []RefOcc
	Patterns []ValOcc
	Enums    []ValOcc
	Params   []ParamOcc
	Resps    []RespOcc
	Ops      []OpOcc
	// NonBodySchemaParam is set when a non-body parameter carries a "schema" (outside the class the statements speak about)
	NonBodySchemaParam bool
	SharedSelfRef      bool
}

func cp(p []string, more ...string) []string {
	o := make([]string, 0, len(p)+len(more))
	o = append(o, p...)
	return append(o, more...)
}

// WalkDoc traverses a Swagger 2.0 document (generic JSON, spec-model normal form).
func WalkDoc(doc jx.Obj) *Walk {
	w := &Walk{}
	if paths := jx.AsObj(doc["paths"]); paths != nil {
		for _, p := range jx.Keys(paths) {
			if !strings.HasPrefix(p, "/") {
				continue // vendor extensions
			}
			pi := jx.AsObj(paths[p])
			if pi == nil {
				continue
			}
			base := []string{"paths", p}
			if r, ok := pi["$ref"].(string); ok && r != "" {
				w.Refs = append(w.Refs, RefOcc{Ptr: base, Ref: r, Kind: "pathitem", Container: "pathitem"})
			}
			for i, pa := range jx.AsArr(pi["parameters"]) {
				w.param(jx.AsObj(pa), cp(base, "parameters", strconv.Itoa(i)), "path")
			}
			for _, m := range Methods {
				op := jx.AsObj(pi[m])
				if op == nil {
					continue
				}
				ob := cp(base, m)
				w.Ops = append(w.Ops, OpOcc{Method: m, Path: p, Node: op, Ptr: ob})
				for i, pa := range jx.AsArr(op["parameters"]) {
					w.param(jx.AsObj(pa), cp(ob, "parameters", strconv.Itoa(i)), "op")
				}
				if rs := jx.AsObj(op["responses"]); rs != nil {
					for _, k := range jx.Keys(rs) {
						if k == "default" {
							w.response(jx.AsObj(rs[k]), cp(ob, "responses", k), "default")
						} else if _, err := strconv.Atoi(k); err == nil {
							w.response(jx.AsObj(rs[k]), cp(ob, "responses", k), "code")
						}
					}
				}
			}
		}
	}
	if ps := jx.AsObj(doc["parameters"]); ps != nil {
		for _, k := range jx.Keys(ps) {
			w.param(jx.AsObj(ps[k]), []string{"parameters", k}, "shared")
		}
	}
	if rs := jx.AsObj(doc["responses"]); rs != nil {
		for _, k := range jx.Keys(rs) {
			w.response(jx.AsObj(rs[k]), []string{"responses", k}, "shared")
		}
	}
	if ds := jx.AsObj(doc["definitions"]); ds != nil {
		for _, k := range jx.Keys(ds) {
			w.schema(ds[k], []string{"definitions", k}, "definition", 0, true, "")
		}
	}
	return w
}

func (w *Walk) param(p jx.Obj, at []string, level string) {
	if p == nil {
		return
	}
	w.Params = append(w.Params, ParamOcc{Ptr: at, Node: p, Level: level})
	cont := map[string]string{"shared": "sharedParam", "path": "pathParam", "op": "opParam"}[level]
	if r, ok := p["$ref"].(string); ok && r != "" {
		if level == "shared" {
			w.SharedSelfRef = true
			w.Refs = append(w.Refs, RefOcc{Ptr: at, Ref: r, Kind: "sharedParamSelf", Container: cont})
		} else {
			w.Refs = append(w.Refs, RefOcc{Ptr: at, Ref: r, Kind: "parameter", Container: cont})
		}
	}
	if s, ok := p["pattern"].(string); ok && s != "" {
		w.Patterns = append(w.Patterns, ValOcc{Ptr: at, Value: s, Cat: "parameter", Where: cont})
	}
	if e := jx.AsArr(p["enum"]); len(e) > 0 {
		w.Enums = append(w.Enums, ValOcc{Ptr: at, Value: e, Cat: "parameter", Where: cont})
	}
	w.items(p["items"], cp(at, "items"), "paramItems", cont, 1)
	if sch, ok := p["schema"]; ok {
		if jx.AsStr(p["in"]) == "body" {
			w.schema(sch, cp(at, "schema"), cont, 0, false, "schema")
		} else {
			w.NonBodySchemaParam = true
		}
	}
}

func (w *Walk) items(v any, at []string, kind, cont string, depth int) {
	it := jx.AsObj(v)
	if it == nil {
		return
	}
	if r, ok := it["$ref"].(string); ok && r != "" {
		w.Refs = append(w.Refs, RefOcc{Ptr: at, Ref: r, Kind: kind, Container: cont, Depth: depth})
	}
	where := cont + "/items" + strconv.Itoa(depth)
	if s, ok := it["pattern"].(string); ok && s != "" {
		w.Patterns = append(w.Patterns, ValOcc{Ptr: at, Value: s, Cat: "items", Where: where})
	}
	if e := jx.AsArr(it["enum"]); len(e) > 0 {
		w.Enums = append(w.Enums, ValOcc{Ptr: at, Value: e, Cat: "items", Where: where})
	}
	w.items(it["items"], cp(at, "items"), kind, cont, depth+1)
}

func (w *Walk) response(r jx.Obj, at []string, kind string) {
	if r == nil {
		return
	}
	w.Resps = append(w.Resps, RespOcc{Ptr: at, Node: r, Kind: kind})
	cont := map[string]string{"shared": "sharedResponse", "default": "defaultResponse", "code": "codeResponse"}[kind]
	if ref, ok := r["$ref"].(string); ok && ref != "" {
		if kind == "shared" {
			w.SharedSelfRef = true
			w.Refs = append(w.Refs, RefOcc{Ptr: at, Ref: ref, Kind: "sharedResponseSelf", Container: cont})
		} else {
			w.Refs = append(w.Refs, RefOcc{Ptr: at, Ref: ref, Kind: "response", Container: cont})
		}
	}
	if hs := jx.AsObj(r["headers"]); hs != nil {
		for _, hn := range jx.Keys(hs) {
			h := jx.AsObj(hs[hn])
			if h == nil {
				continue
			}
			ha := cp(at, "headers", hn)
			hw := cont + "/header"
			if s, ok := h["pattern"].(string); ok && s != "" {
				w.Patterns = append(w.Patterns, ValOcc{Ptr: ha, Value: s, Cat: "header", Where: hw})
			}
			if e := jx.AsArr(h["enum"]); len(e) > 0 {
				w.Enums = append(w.Enums, ValOcc{Ptr: ha, Value: e, Cat: "header", Where: hw})
			}
			w.items(h["items"], cp(ha, "items"), "headerItems", hw, 1)
		}
	}
	if sch, ok := r["schema"]; ok {
		w.schema(sch, cp(at, "schema"), cont, 0, false, "schema")
	}
}

// SchemaMapKw / SchemaArrKw / SchemaOneKw list the schema-bearing keywords.
var SchemaMapKw = []string{"definitions", "properties", "patternProperties"}
var SchemaArrKw = []string{"allOf", "anyOf", "oneOf"}
var SchemaOneKw = []string{"not", "additionalProperties", "additionalItems"}

func (w *Walk) schema(v any, at []string, cont string, depth int, top bool, holder string) {
	s := jx.AsObj(v)
	if s == nil {
		return
	}
	w.Schemas = append(w.Schemas, SchemaPos{Ptr: at, Node: s, Container: cont, Depth: depth, TopLevel: top, Name: at[len(at)-1], Holder: holder})
	if r, ok := s["$ref"].(string); ok && r != "" {
		w.Refs = append(w.Refs, RefOcc{Ptr: at, Ref: r, Kind: "schema", Container: cont, Holder: holder, Depth: depth})
	}
	where := cont + "/schema" + strconv.Itoa(min(depth, 3))
	if p, ok := s["pattern"].(string); ok && p != "" {
		w.Patterns = append(w.Patterns, ValOcc{Ptr: at, Value: p, Cat: "schema", Where: where})
	}
	if e := jx.AsArr(s["enum"]); len(e) > 0 {
		w.Enums = append(w.Enums, ValOcc{Ptr: at, Value: e, Cat: "schema", Where: where})
	}
	EachChild(s, func(kw, key string, child any) {
		if key == "" {
			w.schema(child, cp(at, kw), cont, depth+1, false, kw)
		} else {
			h := kw
			if kw == "items" {
				h = "items[]"
			}
			w.schema(child, cp(at, kw, key), cont, depth+1, false, h)
		}
	})
}

// EachChild enumerates the direct sub-schemas of a schema node in a fixed order.
// key is "" for single-valued keywords.
func EachChild(s jx.Obj, f func(kw, key string, child any)) {
	for _, kw := range SchemaMapKw {
		if m := jx.AsObj(s[kw]); m != nil {
			for _, k := range jx.Keys(m) {
				if _, ok := m[k].(jx.Obj); ok {
					f(kw, k, m[k])
				}
			}
		}
	}
	for _, kw := range SchemaArrKw {
		for i, x := range jx.AsArr(s[kw]) {
			if _, ok := x.(jx.Obj); ok {
				f(kw, strconv.Itoa(i), x)
			}
		}
	}
	for _, kw := range SchemaOneKw {
		if _, ok := s[kw].(jx.Obj); ok {
			f(kw, "", s[kw])
		}
	}
	switch it := s["items"].(type) {
	case jx.Obj:
		f("items", "", it)
	case jx.Arr:
		for i, x := range it {
			if _, ok := x.(jx.Obj); ok {
				f("items", strconv.Itoa(i), x)
			}
		}
	}
}

// IsSchemaKw tells whether kw is one of the schema-bearing keywords.
func IsSchemaKw(kw string) bool {
	switch kw {
	case "definitions", "properties", "patternProperties", "allOf", "anyOf", "oneOf", "not", "additionalProperties", "additionalItems", "items":
		return true
	}
	return false
}

func SortedKeys[V any](m map[string]V) []string {
	ks := make([]string, 0, len(m))
	for k := range m {
		ks = append(ks, k)
	}
	sort.Strings(ks)
	return ks
}
