package oracle

import (
	"fmt"
	"reflect"
	"strings"

	"verif/harness/jx"
)

// MixinModel is the executable statement of C17 over generic JSON (spec-model normal form):
// keyed sections = first-wins union, lists = order-preserving de-duplicated union, empty scalars filled
// from the first mixin that has them, one collision per key/tag/requirement/extension key already present.
// Operation ids are not modelled here (they are stripped before comparison; C18 owns them).
func MixinModel(primary jx.Obj, mixins []jx.Obj) (merged jx.Obj, collisions map[string]int) {
	p := jx.Clone(primary).(jx.Obj)
	col := map[string]int{}
	isExt := func(k string) bool { return strings.HasPrefix(strings.ToLower(k), "x-") }
	mergeExt := func(dst, src jx.Obj, where string) {
		for _, k := range jx.Keys(src) {
			if !isExt(k) {
				continue
			}
			if _, ok := dst[k]; ok {
				col["ext:"+where]++
				continue
			}
			dst[k] = jx.Clone(src[k])
		}
	}
	fill := func(dst, src jx.Obj, keys ...string) {
		for _, k := range keys {
			if s, _ := dst[k].(string); s == "" {
				if v, _ := src[k].(string); v != "" {
					dst[k] = v
				}
			}
		}
	}
	for _, m := range mixins {
		mergeExt(p, m, "top")
		fill(p, m, "host", "basePath")
		// info
		if mi := jx.AsObj(m["info"]); mi != nil {
			if pi := jx.AsObj(p["info"]); pi == nil {
				p["info"] = jx.Clone(mi)
			} else {
				mergeExt(pi, mi, "info")
				fill(pi, mi, "description", "title", "termsOfService", "version")
				for _, part := range []string{"contact", "license"} {
					mp := jx.AsObj(mi[part])
					if mp == nil {
						continue
					}
					if pp := jx.AsObj(pi[part]); pp == nil {
						pi[part] = jx.Clone(mp)
					} else {
						mergeExt(pp, mp, part)
						if part == "contact" {
							fill(pp, mp, "name", "url", "email")
						} else {
							fill(pp, mp, "name", "url")
						}
					}
				}
			}
		}
		if md := jx.AsObj(m["externalDocs"]); md != nil {
			if pd := jx.AsObj(p["externalDocs"]); pd == nil {
				p["externalDocs"] = jx.Clone(md)
			} else {
				fill(pd, md, "description", "url")
			}
		}
		// plain lists
		for _, k := range []string{"consumes", "produces", "schemes"} {
			cur := jx.AsArr(p[k])
			for _, v := range jx.AsArr(m[k]) {
				found := false
				for _, c := range cur {
					if c == v {
						found = true
						break
					}
				}
				if !found {
					cur = append(cur, v)
				}
			}
			if cur != nil {
				p[k] = cur
			}
		}
		// tags by name
		{
			cur := jx.AsArr(p["tags"])
			for _, v := range jx.AsArr(m["tags"]) {
				found := false
				for _, c := range cur {
					if jx.AsStr(jx.AsObj(c)["name"]) == jx.AsStr(jx.AsObj(v)["name"]) {
						found = true
						break
					}
				}
				if found {
					col["tags"]++
				} else {
					cur = append(cur, jx.Clone(v))
				}
			}
			if cur != nil {
				p["tags"] = cur
			}
		}
		// security requirements by value
		{
			cur := jx.AsArr(p["security"])
			for _, v := range jx.AsArr(m["security"]) {
				found := false
				for _, c := range cur {
					if reflect.DeepEqual(c, v) {
						found = true
						break
					}
				}
				if found {
					col["security"]++
				} else {
					cur = append(cur, jx.Clone(v))
				}
			}
			if cur != nil {
				p["security"] = cur
			}
		}
		// keyed sections
		for _, sec := range []string{"securityDefinitions", "definitions", "paths", "parameters", "responses"} {
			ms := jx.AsObj(m[sec])
			if ms == nil {
				continue
			}
			ps := jx.AsObj(p[sec])
			if ps == nil {
				ps = jx.Obj{}
				p[sec] = ps
			}
			for _, k := range jx.Keys(ms) {
				if sec == "paths" && !strings.HasPrefix(k, "/") {
					continue
				}
				if _, ok := ps[k]; ok {
					col[sec]++
					continue
				}
				ps[k] = jx.Clone(ms[k])
			}
		}
	}
	return p, col
}

// StripOpIDs removes every operationId (C17 compares documents modulo ids).
func StripOpIDs(doc jx.Obj) {
	for _, pi := range jx.AsObj(doc["paths"]) {
		for _, m := range Methods {
			if op := jx.AsObj(jx.AsObj(pi)[m]); op != nil {
				delete(op, "operationId")
			}
		}
	}
}

// DropEmptyTop removes top-level keys whose value is null, {} or [] (absent == empty for sections and lists).
func DropEmptyTop(doc jx.Obj) {
	for k, v := range doc {
		switch t := v.(type) {
		case nil:
			delete(doc, k)
		case jx.Obj:
			if len(t) == 0 {
				delete(doc, k)
			}
		case jx.Arr:
			if len(t) == 0 {
				delete(doc, k)
			}
		}
	}
}

// OpIDs lists (method path) -> operationId for all seven methods.
func OpIDs(doc jx.Obj) map[string]string {
	out := map[string]string{}
	paths := jx.AsObj(doc["paths"])
	for _, p := range jx.Keys(paths) {
		if !strings.HasPrefix(p, "/") {
			continue
		}
		for _, m := range Methods {
			if op := jx.AsObj(jx.AsObj(paths[p])[m]); op != nil {
				out[fmt.Sprintf("%s %s", m, p)] = jx.AsStr(op["operationId"])
			}
		}
	}
	return out
}
