package oracle

import (
	"fmt"
	"path"
	"strings"

	"verif/harness/jx"
)

// World is a set of JSON documents addressed by slash-separated absolute paths (RFC 3986 file references).
type World struct {
	Docs map[string]any // absolute path -> parsed document
	Root string         // absolute path of the root document
}

// Pos is a position in a world: a document and pointer tokens.
type Pos struct {
	Doc  string
	Toks []string
}

func (p Pos) String() string { return p.Doc + "#" + jx.Ptr(p.Toks) }

func (p Pos) Child(toks ...string) Pos { return Pos{p.Doc, cp(p.Toks, toks...)} }

// Node returns the JSON value at a position.
func (w *World) Node(p Pos) (any, bool) {
	d, ok := w.Docs[p.Doc]
	if !ok {
		return nil, false
	}
	return jx.Get(d, p.Toks)
}

// Resolve resolves a $ref string found in document `from` (R of DESIGN §5.1):
// the part before '#' is resolved against the directory of the containing document,
// the fragment is percent-decoded and split per RFC 6901.
func (w *World) Resolve(from string, ref string) (Pos, error) {
	file, toks, err := jx.SplitRef(ref)
	if err != nil {
		return Pos{}, err
	}
	doc := from
	if file != "" {
		if strings.Contains(file, "://") {
			return Pos{}, fmt.Errorf("remote URL %q not resolvable offline", ref)
		}
		if path.IsAbs(file) {
			doc = path.Clean(file)
		} else {
			doc = path.Join(path.Dir(from), file)
		}
	}
	if _, ok := w.Docs[doc]; !ok {
		return Pos{}, fmt.Errorf("document %q (from %q in %s) not in the bundle", doc, ref, from)
	}
	p := Pos{doc, toks}
	if _, ok := w.Node(p); !ok {
		return Pos{}, fmt.Errorf("pointer %q does not exist in %s", jx.Ptr(toks), doc)
	}
	return p, nil
}

// Deref follows a chain of $ref nodes starting at p until a node that is not a $ref.
// A node with a "$ref" key is a reference whatever its siblings (JSON Reference semantics).
// Returns the chain of refs followed (for diagnostics and statistics).
func (w *World) Deref(p Pos) (Pos, jx.Obj, int, error) {
	seen := map[string]bool{}
	hops := 0
	for {
		n, ok := w.Node(p)
		if !ok {
			return p, nil, hops, fmt.Errorf("position %s does not exist", p)
		}
		o, isObj := n.(jx.Obj)
		if !isObj {
			return p, nil, hops, fmt.Errorf("position %s is not an object", p)
		}
		r, has := o["$ref"].(string)
		if !has || r == "" {
			return p, o, hops, nil
		}
		k := p.String()
		if seen[k] {
			return p, nil, hops, fmt.Errorf("cycle made of $refs only at %s", p)
		}
		seen[k] = true
		np, err := w.Resolve(p.Doc, r)
		if err != nil {
			return p, nil, hops, fmt.Errorf("at %s: %w", p, err)
		}
		p = np
		hops++
	}
}
