package oracle

import (
	"verif/harness/jx"
)

// ParamModel is the reference answer for the effective parameters of one operation (C15).
type ParamModel struct {
	Skip     []jx.Obj // bad refs skipped, everything else kept (callback returning true)
	StopList []jx.Obj // each list abandoned at its first bad ref
	StopAll  []jx.Obj // everything abandoned at the first bad ref
	Bad      []string // the bad $ref strings, in order (path level first)
	Names    []string // all parameter names seen (for the Go-name collision precondition)
}

// resolveParam returns the shared parameter designated by ref, or nil if the ref is dangling
// or designates something that is not a parameter object at a parameter position.
func resolveParam(doc jx.Obj, ref string) jx.Obj {
	file, toks, err := jx.SplitRef(ref)
	if err != nil || file != "" {
		return nil
	}
	if len(toks) == 2 && toks[0] == "parameters" {
		if p := jx.AsObj(jx.AsObj(doc["parameters"])[toks[1]]); p != nil {
			return p
		}
	}
	return nil
}

type bag struct {
	keys []string
	m    map[string]jx.Obj
}

func (b *bag) put(p jx.Obj) {
	k := jx.AsStr(p["in"]) + "#" + jx.AsStr(p["name"])
	if _, ok := b.m[k]; !ok {
		b.keys = append(b.keys, k)
	}
	b.m[k] = p
}

func (b *bag) list() []jx.Obj {
	out := make([]jx.Obj, 0, len(b.keys))
	for _, k := range b.keys {
		out = append(out, b.m[k])
	}
	return out
}

// EffectiveParams: path-level parameters overridden by operation-level ones on equal (in, name),
// every $ref to a shared parameter replaced by that parameter.
func EffectiveParams(doc jx.Obj, pathLevel, opLevel jx.Arr) ParamModel {
	skip, stopList, stopAll := &bag{m: map[string]jx.Obj{}}, &bag{m: map[string]jx.Obj{}}, &bag{m: map[string]jx.Obj{}}
	var pm ParamModel
	allStopped := false
	for _, list := range []jx.Arr{pathLevel, opLevel} {
		listStopped := false
		for _, x := range list {
			p := jx.AsObj(x)
			if p == nil {
				continue
			}
			if ref, _ := p["$ref"].(string); ref != "" {
				tgt := resolveParam(doc, ref)
				if tgt == nil {
					pm.Bad = append(pm.Bad, ref)
					listStopped, allStopped = true, true
					continue
				}
				p = tgt
			}
			pm.Names = append(pm.Names, jx.AsStr(p["name"]))
			skip.put(p)
			if !listStopped {
				stopList.put(p)
			}
			if !allStopped {
				stopAll.put(p)
			}
		}
	}
	pm.Skip, pm.StopList, pm.StopAll = skip.list(), stopList.list(), stopAll.list()
	return pm
}
