package oracle

import (
	"verif/harness/jx"
)

// Tri is a three-valued flag: the statement of C20 does not determine SimpleArray/SimpleMap of
// containers that contain themselves, so the reference classifier answers U there.
type Tri int

const (
	F Tri = iota
	T
	U
)

func tri(b bool) Tri {
	if b {
		return T
	}
	return F
}

// Class is the reference classification of a type-consistent schema, from the documented rules.
type Class struct {
	Kind                                              string // prim | empty | object | map | array | tuple | unknown
	Known, Simple, Array, SimpleArray, Map, SimpleMap Tri
	Extended, Tuple, TupleExtra                       Tri
	Consistent                                        bool // false: outside the grammar the rules speak about (no expectation)
}

var strfmtNames = map[string]bool{"date": true, "date-time": true, "uuid": true, "byte": true, "email": true, "int32": true, "int64": true, "float": true, "double": true}

// DerefLocal follows a chain of pure local $refs ("#/definitions/x" or any local pointer) in root.
// ok=false on a dangling ref, a non-local ref or a cycle made of pure refs.
func DerefLocal(root jx.Obj, s jx.Obj) (jx.Obj, bool) {
	seen := map[string]bool{}
	for {
		r, has := s["$ref"].(string)
		if !has || r == "" {
			return s, true
		}
		if seen[r] {
			return nil, false
		}
		seen[r] = true
		file, toks, err := jx.SplitRef(r)
		if err != nil || file != "" {
			return nil, false
		}
		v, ok := jx.Get(root, toks)
		if !ok {
			return nil, false
		}
		o, isObj := v.(jx.Obj)
		if !isObj {
			return nil, false
		}
		s = o
	}
}

func hasType(s jx.Obj, t string) bool {
	switch v := s["type"].(type) {
	case string:
		return v == t
	case jx.Arr:
		for _, x := range v {
			if x == t {
				return true
			}
		}
	}
	return false
}

func noType(s jx.Obj) bool {
	_, ok := s["type"]
	return !ok
}

// Classify applies the documented rules. stack holds the identities (canonical JSON) of the containers being classified.
func Classify(root jx.Obj, in jx.Obj, stack map[string]bool) Class {
	s, ok := DerefLocal(root, in)
	if !ok {
		return Class{Kind: "unknown"}
	}
	id := jx.CanonS(s)
	props := len(jx.AsObj(s["properties"])) > 0
	allOf := len(jx.AsArr(s["allOf"])) > 0
	var apSchema jx.Obj
	apTrue := false
	switch v := s["additionalProperties"].(type) {
	case jx.Obj:
		apSchema = v
	case bool:
		apTrue = v
	}
	hasAP := apSchema != nil || apTrue
	hasAI := false
	switch v := s["additionalItems"].(type) {
	case jx.Obj:
		hasAI = true
	case bool:
		hasAI = v
	}
	itemsObj, _ := s["items"].(jx.Obj)
	itemsArr, isTupleItems := s["items"].(jx.Arr)
	_, hasFormat := s["format"].(string)
	objType := noType(s) || hasType(s, "object")

	c := Class{Consistent: true}
	prim := hasType(s, "string") || hasType(s, "integer") || hasType(s, "number") || hasType(s, "boolean")
	switch {
	case prim:
		c.Kind = "prim"
		c.Known, c.Simple = T, T
		if props || allOf || hasAP || s["items"] != nil {
			c.Consistent = false
		}
	case isTupleItems && len(itemsArr) > 0:
		c.Kind = "tuple"
		c.Tuple, c.TupleExtra = tri(!hasAI), tri(hasAI)
		if !hasType(s, "array") || props || allOf || hasAP || hasFormat {
			c.Consistent = false
		}
	case hasType(s, "array"):
		c.Kind = "array"
		c.Array = T
		if itemsObj == nil {
			c.SimpleArray = T
		} else if stack[id] {
			c.SimpleArray = U
		} else {
			stack[id] = true
			c.SimpleArray = Classify(root, itemsObj, stack).Simple
			delete(stack, id)
		}
		c.Simple = c.SimpleArray
		if props || allOf || hasAP || hasFormat || isTupleItems {
			c.Consistent = false
		}
	case objType && (props || allOf):
		c.Kind = "object"
		c.Extended = tri(hasAP)
		if hasFormat || s["items"] != nil {
			c.Consistent = false
		}
	case objType && hasAP:
		c.Kind = "map"
		c.Map = T
		if apSchema == nil {
			c.SimpleMap = T
		} else if stack[id] {
			c.SimpleMap = U
		} else {
			stack[id] = true
			c.SimpleMap = Classify(root, apSchema, stack).Simple
			delete(stack, id)
		}
		c.Simple = c.SimpleMap
		if hasFormat || s["items"] != nil || hasAI {
			c.Consistent = false
		}
	case objType:
		c.Kind = "empty"
		c.Known, c.Simple = T, T
		if s["items"] != nil || hasAI {
			c.Consistent = false
		}
	default:
		c.Kind = "unknown"
		c.Consistent = false
	}
	if hasFormat && !prim {
		c.Consistent = false
	}
	if hasFormat && prim && !strfmtNames[jx.AsStr(s["format"])] {
		// unknown format on a primitive is still a primitive
	}
	return c
}
