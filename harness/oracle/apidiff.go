package oracle

import (
	"fmt"
	"strconv"
	"strings"

	"verif/harness/jx"
)

// APIDiff compares two bundles as API descriptions (C01): paths, operations, parameters, responses, headers
// after following $refs, schema positions by bisimulation, definitions by name.
type APIDiff struct {
	Bis        *Bisim
	Before     *World
	After      *World
	Mismatches []Mismatch
	Stats      map[string]int
}

func minus(o jx.Obj, keys ...string) jx.Obj {
	out := jx.Obj{}
outer:
	for k, v := range o {
		for _, d := range keys {
			if k == d {
				continue outer
			}
		}
		out[k] = v
	}
	return out
}

func (d *APIDiff) add(kind, path, detail string) {
	d.Mismatches = append(d.Mismatches, Mismatch{kind, path, detail})
}

func (d *APIDiff) schema(a, b Pos, where string) {
	d.Stats["schema_positions_compared"]++
	if m := d.Bis.Eq(a, b); m != nil {
		d.add(m.Kind, where+m.Path, m.Detail)
	}
}

// object compares two possibly-$ref'd objects (parameter, response) field by field except `schema`.
func (d *APIDiff) object(a, b Pos, where, what string) {
	a2, an, _, err := d.Before.Deref(a)
	if err != nil {
		d.add("dangling-ref-before", where, err.Error())
		return
	}
	b2, bn, hb, err := d.After.Deref(b)
	if err != nil {
		d.add("dangling-ref", where, err.Error())
		return
	}
	if hb > 0 {
		d.Stats["after_nonschema_refs_followed"]++
	}
	la, lb := minus(an, "schema", "$ref"), minus(bn, "schema", "$ref")
	if !jx.Equal(la, lb) {
		df, _ := jx.Diff(la, lb)
		d.add(what+"-differs", where, df)
	}
	_, sa := an["schema"]
	_, sb := bn["schema"]
	switch {
	case sa && sb:
		d.schema(a2.Child("schema"), b2.Child("schema"), where+"/schema")
	case sa != sb:
		d.add(what+"-differs", where, fmt.Sprintf("schema present before=%v after=%v", sa, sb))
	}
	d.Stats[what+"s_compared"]++
}

func (d *APIDiff) paramList(a, b Pos, an, bn jx.Obj, where string) {
	pa, pb := jx.AsArr(an["parameters"]), jx.AsArr(bn["parameters"])
	if len(pa) != len(pb) {
		d.add("parameter-count", where, fmt.Sprintf("%d parameters before, %d after", len(pa), len(pb)))
		return
	}
	for i := range pa {
		idx := strconv.Itoa(i)
		d.object(a.Child("parameters", idx), b.Child("parameters", idx), where+"/parameters/"+idx, "parameter")
	}
}

// Compare runs the whole C01 comparison. removeUnused relaxes the definition/shared-section rules.
func (d *APIDiff) Compare(removeUnused bool) {
	br, _ := d.Before.Docs[d.Before.Root].(jx.Obj)
	ar, _ := d.After.Docs[d.After.Root].(jx.Obj)
	rootB, rootA := Pos{d.Before.Root, nil}, Pos{d.After.Root, nil}
	// (1) other top-level keys
	tb, ta := minus(br, "paths", "definitions", "parameters", "responses"), minus(ar, "paths", "definitions", "parameters", "responses")
	if !jx.Equal(tb, ta) {
		df, _ := jx.Diff(tb, ta)
		d.add("toplevel-differs", "", df)
	}
	// (2) paths
	pb, pa := jx.AsObj(br["paths"]), jx.AsObj(ar["paths"])
	for _, p := range jx.Keys(pb) {
		if _, ok := pa[p]; !ok {
			d.add("path-missing", "/paths/"+p, "path disappeared")
			continue
		}
		if !strings.HasPrefix(p, "/") {
			if !jx.Equal(pb[p], pa[p]) {
				d.add("toplevel-differs", "/paths/"+p, "paths extension changed")
			}
			continue
		}
		where := "/paths/" + jx.EscTok(p)
		b2, bn, _, err := d.Before.Deref(rootB.Child("paths", p))
		if err != nil {
			d.add("dangling-ref-before", where, err.Error())
			continue
		}
		a2, an, _, err := d.After.Deref(rootA.Child("paths", p))
		if err != nil {
			d.add("dangling-ref", where, err.Error())
			continue
		}
		drop := append([]string{"parameters", "$ref"}, Methods...)
		if lb, la := minus(bn, drop...), minus(an, drop...); !jx.Equal(lb, la) {
			df, _ := jx.Diff(lb, la)
			d.add("pathitem-differs", where, df)
		}
		d.paramList(b2, a2, bn, an, where)
		for _, m := range Methods {
			ob, oa := jx.AsObj(bn[m]), jx.AsObj(an[m])
			if (ob == nil) != (oa == nil) {
				d.add("operation-missing", where+"/"+m, fmt.Sprintf("operation present before=%v after=%v", ob != nil, oa != nil))
				continue
			}
			if ob == nil {
				continue
			}
			d.Stats["operations_compared"]++
			ow := where + "/" + m
			if lb, la := minus(ob, "parameters", "responses"), minus(oa, "parameters", "responses"); !jx.Equal(lb, la) {
				df, _ := jx.Diff(lb, la)
				d.add("operation-differs", ow, df)
			}
			d.paramList(b2.Child(m), a2.Child(m), ob, oa, ow)
			rb, ra := jx.AsObj(ob["responses"]), jx.AsObj(oa["responses"])
			for _, k := range jx.Keys(rb) {
				if _, ok := ra[k]; !ok {
					d.add("response-missing", ow+"/responses/"+k, "response disappeared")
					continue
				}
				if k != "default" {
					if _, err := strconv.Atoi(k); err != nil {
						if !jx.Equal(rb[k], ra[k]) {
							d.add("response-differs", ow+"/responses/"+k, "responses extension changed")
						}
						continue
					}
				}
				d.object(b2.Child(m, "responses", k), a2.Child(m, "responses", k), ow+"/responses/"+k, "response")
			}
			for _, k := range jx.Keys(ra) {
				if _, ok := rb[k]; !ok {
					d.add("response-added", ow+"/responses/"+k, "response appeared")
				}
			}
		}
	}
	for _, p := range jx.Keys(pa) {
		if _, ok := pb[p]; !ok {
			d.add("path-added", "/paths/"+p, "path appeared")
		}
	}
	// (3) shared sections
	for _, sec := range []string{"parameters", "responses"} {
		sb, sa := jx.AsObj(br[sec]), jx.AsObj(ar[sec])
		what := strings.TrimSuffix(sec, "s")
		if removeUnused {
			continue // C06 owns the emptiness of these sections
		}
		for _, k := range jx.Keys(sb) {
			if _, ok := sa[k]; !ok {
				d.add("shared-"+what+"-missing", "/"+sec+"/"+jx.EscTok(k), "disappeared although RemoveUnused is off")
				continue
			}
			d.object(rootB.Child(sec, k), rootA.Child(sec, k), "/"+sec+"/"+jx.EscTok(k), what)
		}
		for _, k := range jx.Keys(sa) {
			if _, ok := sb[k]; !ok {
				d.add("shared-"+what+"-added", "/"+sec+"/"+jx.EscTok(k), "appeared")
			}
		}
	}
	// (4) definitions
	db, da := jx.AsObj(br["definitions"]), jx.AsObj(ar["definitions"])
	for _, k := range jx.Keys(db) {
		if _, ok := da[k]; !ok {
			if !removeUnused {
				d.add("definition-missing", "/definitions/"+jx.EscTok(k), "definition disappeared although RemoveUnused is off")
			} else {
				d.Stats["definitions_removed"]++
			}
			continue
		}
		d.schema(rootB.Child("definitions", k), rootA.Child("definitions", k), "/definitions/"+jx.EscTok(k))
		d.Stats["definitions_compared"]++
	}
	for _, k := range jx.Keys(da) {
		if _, ok := db[k]; !ok {
			d.Stats["definitions_created"]++
		}
	}
	// (5) the marker occurs nowhere but on the root of new definitions (and where the input already carried it)
	had := map[string]any{}
	for _, s := range WalkDoc(br).Schemas {
		if v, has := s.Node["x-go-gen-location"]; has {
			had[jx.Ptr(s.Ptr)] = v
		}
	}
	w := WalkDoc(ar)
	for _, s := range w.Schemas {
		v, has := s.Node["x-go-gen-location"]
		if !has {
			continue
		}
		if len(had) > 0 && !s.TopLevel {
			// the input itself carries markers: an expanded or moved copy of such a schema legitimately shows one
			// (the labels compared by the bisimulation include it)
			d.Stats["markers_inherited_from_input"]++
			continue
		}
		d.Stats["markers_seen"]++
		if old, ok := had[jx.Ptr(s.Ptr)]; ok && jx.Equal(old, v) {
			d.Stats["markers_already_in_input"]++
			continue
		}
		isNew := false
		if s.TopLevel {
			_, existed := db[s.Name]
			isNew = !existed
		}
		if !isNew {
			d.add("marker-misplaced", jx.Ptr(s.Ptr), "x-go-gen-location on something that is not a new definition")
		}
	}
	d.Stats["refs_followed_before"] = d.Bis.RefsFollowedA
	d.Stats["refs_followed_after"] = d.Bis.RefsFollowedB
	d.Stats["schema_nodes_compared"] = d.Bis.Compared
}

// NewAPIDiff prepares the comparison: the marker is tolerated on the root of definitions that did not exist before.
func NewAPIDiff(before, after *World) *APIDiff {
	bs := NewBisim(before, after)
	br, _ := before.Docs[before.Root].(jx.Obj)
	ar, _ := after.Docs[after.Root].(jx.Obj)
	db := jx.AsObj(br["definitions"])
	for k := range jx.AsObj(ar["definitions"]) {
		if _, existed := db[k]; !existed {
			bs.IgnoreMarkerAt[Pos{after.Root, []string{"definitions", k}}.String()] = true
		}
	}
	return &APIDiff{Bis: bs, Before: before, After: after, Stats: map[string]int{}}
}
