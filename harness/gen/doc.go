package gen

import (
	"math/rand/v2"
	"strconv"

	"verif/harness/jx"
)

// DocCfg steers G-doc.
type DocCfg struct {
	Hostile      bool // names over the hostile alphabet
	Depth        int  // schema nesting
	Extended     bool
	NoPaths      bool // omit the paths section entirely
	BadParamRefs bool // dangling parameter refs and refs to non-parameters
	EmptyDescr   bool // responses without description (fixer)
	OpNoResp     bool // operations without a responses object
	Security     bool // consumes/produces/security at both levels
	PatEnum      bool
	RefPct       int
	RemoteRefs   bool // also plant refs to other files (never resolved by the analyzer)
	MaxPaths     int
	MaxDefs      int
}

var MethodsAll = []string{"get", "put", "post", "delete", "options", "head", "patch"}
var mediaTypes = []string{"application/json", "application/xml", "text/plain", "application/x-yaml", "multipart/form-data"}
var headerNames = []string{"X-Rate-Limit", "X-Request-Id", "Via", "ETag", "X-Trace"}

type docGen struct {
	rng  *rand.Rand
	cfg  DocCfg
	sc   *SchemaCfg
	cnt  int
	defs []string // definition names
	shp  []string // shared parameter names
	shr  []string // shared response names
	sec  []string // security scheme names
}

func refTo(section, name string) string { return "#/" + section + "/" + jx.EscTok(name) }

// Doc draws one loadable Swagger 2.0 document.
func Doc(rng *rand.Rand, cfg DocCfg) jx.Obj {
	g := &docGen{rng: rng, cfg: cfg}
	if cfg.MaxPaths == 0 {
		cfg.MaxPaths = 4
		g.cfg.MaxPaths = 4
	}
	if cfg.MaxDefs == 0 {
		g.cfg.MaxDefs = 5
	}
	doc := jx.Obj{"swagger": "2.0", "info": jx.Obj{"title": "t", "version": "1"}}
	nd := rng.IntN(g.cfg.MaxDefs + 1)
	for i := 0; i < nd; i++ {
		g.defs = append(g.defs, AnyName(rng, cfg.Hostile, i))
	}
	np := rng.IntN(4)
	for i := 0; i < np; i++ {
		g.shp = append(g.shp, AnyName(rng, cfg.Hostile, i))
	}
	nr := rng.IntN(4)
	for i := 0; i < nr; i++ {
		g.shr = append(g.shr, AnyName(rng, cfg.Hostile, i))
	}
	var refs []string
	for _, d := range g.defs {
		refs = append(refs, refTo("definitions", d))
	}
	if cfg.RemoteRefs {
		refs = append(refs, "other.json#/definitions/x", "sub/deep.json", "#/definitions/nowhere", "http://example.com/s.json#/definitions/y")
	}
	g.sc = &SchemaCfg{Hostile: cfg.Hostile, Extended: cfg.Extended, Refs: refs, RefPct: cfg.RefPct, PatEnum: cfg.PatEnum, Counter: &g.cnt}

	if len(g.defs) > 0 {
		ds := jx.Obj{}
		for _, d := range g.defs {
			ds[d] = Schema(rng, g.sc, cfg.Depth)
		}
		doc["definitions"] = ds
	}
	if len(g.shp) > 0 {
		ps := jx.Obj{}
		for _, p := range g.shp {
			ps[p] = g.inlineParam(len(ps))
		}
		doc["parameters"] = ps
	}
	if len(g.shr) > 0 {
		rs := jx.Obj{}
		for _, r := range g.shr {
			rs[r] = g.inlineResponse()
		}
		doc["responses"] = rs
	}
	if cfg.Security {
		ns := rng.IntN(4)
		sd := jx.Obj{}
		for i := 0; i < ns; i++ {
			n := "sec" + strconv.Itoa(i)
			g.sec = append(g.sec, n)
			if Chance(rng, 80) {
				sd[n] = jx.Obj{"type": "apiKey", "name": "k" + strconv.Itoa(i), "in": "header"}
			}
		}
		if len(sd) > 0 {
			doc["securityDefinitions"] = sd
		}
		g.sec = append(g.sec, "undeclared")
		if v := g.mediaList(); v != nil {
			doc["consumes"] = v
		}
		if v := g.mediaList(); v != nil {
			doc["produces"] = v
		}
		if v, ok := g.security(); ok {
			doc["security"] = v
		}
	}
	if !cfg.NoPaths {
		paths := jx.Obj{}
		n := rng.IntN(g.cfg.MaxPaths + 1)
		for i := 0; i < n; i++ {
			paths[g.pathName(i)] = g.pathItem()
		}
		doc["paths"] = paths
	}
	return doc
}

func (g *docGen) pathName(i int) string {
	rng := g.rng
	p := "/" + Name(rng, "ident", i)
	if Chance(rng, 50) {
		p += "/{id}"
	}
	if g.cfg.Hostile && Chance(rng, 50) {
		p += "/" + Name(rng, Pick(rng, []string{"space", "unicode", "tilde", "bracket", "brace", "qmark"}), i)
	}
	return p
}

func (g *docGen) mediaList() any {
	switch g.rng.IntN(3) {
	case 0:
		return nil
	case 1:
		return jx.Arr{}
	}
	n := 1 + g.rng.IntN(3)
	seen := map[string]bool{}
	var l jx.Arr
	for i := 0; i < n; i++ {
		m := Pick(g.rng, mediaTypes)
		if !seen[m] || g.rng.IntN(3) == 0 { // the same media type may be listed twice: the answers are sets, the document is not touched
			seen[m] = true
			l = append(l, m)
		}
	}
	return l
}

// security draws: absent, [], one requirement, two alternatives, anonymous {}.
func (g *docGen) security() (any, bool) {
	req := func() jx.Obj {
		o := jx.Obj{}
		n := 1 + g.rng.IntN(2)
		for i := 0; i < n; i++ {
			var sc any = jx.Arr{}
			switch g.rng.IntN(5) {
			case 0, 1:
				sc = jx.Arr{"read", "write"}
			case 2:
				sc = nil // "scheme": null is loadable too
			}
			o[Pick(g.rng, g.sec)] = sc
		}
		return o
	}
	switch g.rng.IntN(5) {
	case 0:
		return nil, false
	case 1:
		return jx.Arr{}, true
	case 2:
		return jx.Arr{req()}, true
	case 3:
		return jx.Arr{req(), req()}, true
	}
	return jx.Arr{jx.Obj{}, req()}, true
}

func (g *docGen) simpleItems(depth int) jx.Obj {
	rng := g.rng
	if depth > 0 && Chance(rng, 50) {
		it := jx.Obj{"type": "array", "items": g.simpleItems(depth - 1)}
		if g.cfg.PatEnum && Chance(rng, 20) {
			it["enum"] = jx.Arr{jx.Arr{"z" + strconv.Itoa(g.sc.next())}}
		}
		return it
	}
	it := jx.Obj{"type": Pick(rng, []string{"string", "integer"})}
	if g.cfg.PatEnum {
		if Chance(rng, 50) {
			it["pattern"] = "^i" + strconv.Itoa(g.sc.next())
		}
		if Chance(rng, 40) {
			it["enum"] = jx.Arr{"i" + strconv.Itoa(g.sc.next())}
		}
	}
	if g.cfg.RefPct > 0 && len(g.sc.Refs) > 0 && Chance(rng, g.cfg.RefPct/2) {
		it["$ref"] = Pick(rng, g.sc.Refs)
	}
	return it
}

func (g *docGen) inlineParam(i int) jx.Obj {
	rng := g.rng
	name := AnyName(rng, false, i)
	if Chance(rng, 35) {
		p := jx.Obj{"name": name, "in": "body", "schema": Schema(rng, g.sc, g.cfg.Depth)}
		if Chance(rng, 30) {
			p["required"] = true
		}
		return p
	}
	p := jx.Obj{"name": name, "in": Pick(rng, []string{"query", "header", "path", "formData"})}
	if p["in"] == "path" {
		p["required"] = true
	}
	if Chance(rng, 40) {
		p["type"] = "array"
		p["items"] = g.simpleItems(2)
	} else {
		p["type"] = Pick(rng, []string{"string", "integer", "number", "boolean"})
	}
	if Chance(rng, 12) {
		p["x-go-name"] = "Field" + strconv.Itoa(g.sc.next())
	}
	if g.cfg.PatEnum {
		if Chance(rng, 40) {
			p["pattern"] = "^q" + strconv.Itoa(g.sc.next())
		}
		if Chance(rng, 30) {
			p["enum"] = jx.Arr{"q" + strconv.Itoa(g.sc.next()), "r"}
		}
	}
	return p
}

func (g *docGen) param(i int) jx.Obj {
	rng := g.rng
	if len(g.shp) > 0 && Chance(rng, 30) {
		return jx.Obj{"$ref": refTo("parameters", Pick(rng, g.shp))}
	}
	if g.cfg.BadParamRefs && Chance(rng, 20) {
		switch rng.IntN(4) {
		case 0:
			return jx.Obj{"$ref": "#/parameters/doesNotExist"}
		case 1:
			if len(g.defs) > 0 {
				return jx.Obj{"$ref": refTo("definitions", Pick(rng, g.defs))}
			}
			return jx.Obj{"$ref": "#/info"}
		case 2:
			if len(g.shr) > 0 {
				return jx.Obj{"$ref": refTo("responses", Pick(rng, g.shr))}
			}
			return jx.Obj{"$ref": "#/nowhere/at/all"}
		default:
			// a reference to a whole document (no fragment) does not designate a parameter either
			return jx.Obj{"$ref": Pick(rng, []string{"other.json#/parameters/p", "shared/offset.json", "http://example.com/params/body.json"})}
		}
	}
	return g.inlineParam(i)
}

func (g *docGen) header() jx.Obj {
	rng := g.rng
	h := jx.Obj{"type": "string"}
	if Chance(rng, 40) {
		h = jx.Obj{"type": "array", "items": g.simpleItems(2)}
	}
	if g.cfg.PatEnum {
		if Chance(rng, 50) {
			h["pattern"] = "^h" + strconv.Itoa(g.sc.next())
		}
		if Chance(rng, 50) {
			h["enum"] = jx.Arr{"h" + strconv.Itoa(g.sc.next())}
		}
	}
	return h
}

func (g *docGen) inlineResponse() jx.Obj {
	rng := g.rng
	r := jx.Obj{}
	if !g.cfg.EmptyDescr || Chance(rng, 50) {
		r["description"] = "resp" + strconv.Itoa(g.sc.next())
	}
	if Chance(rng, 50) {
		r["schema"] = Schema(rng, g.sc, g.cfg.Depth)
	}
	if Chance(rng, 40) {
		hs := jx.Obj{}
		n := 1 + rng.IntN(2)
		for i := 0; i < n; i++ {
			hs[Pick(rng, headerNames)] = g.header()
		}
		r["headers"] = hs
	}
	return r
}

func (g *docGen) response() jx.Obj {
	if len(g.shr) > 0 && Chance(g.rng, 25) {
		return jx.Obj{"$ref": refTo("responses", Pick(g.rng, g.shr))}
	}
	return g.inlineResponse()
}

func (g *docGen) operation() jx.Obj {
	rng := g.rng
	op := jx.Obj{}
	if Chance(rng, 70) {
		op["operationId"] = "op" + strconv.Itoa(g.sc.next())
	}
	np := rng.IntN(4)
	if np > 0 {
		var ps jx.Arr
		for i := 0; i < np; i++ {
			ps = append(ps, g.param(i))
		}
		op["parameters"] = ps
	}
	if !(g.cfg.OpNoResp && Chance(rng, 25)) {
		rs := jx.Obj{}
		if Chance(rng, 60) {
			rs["default"] = g.response()
		}
		n := rng.IntN(3)
		for i := 0; i < n; i++ {
			rs[Pick(rng, []string{"200", "201", "400", "404", "500"})] = g.response()
		}
		op["responses"] = rs
	}
	if g.cfg.Security {
		if v := g.mediaList(); v != nil {
			op["consumes"] = v
		}
		if v := g.mediaList(); v != nil {
			op["produces"] = v
		}
		if v, ok := g.security(); ok {
			op["security"] = v
		}
	}
	return op
}

func (g *docGen) pathItem() jx.Obj {
	rng := g.rng
	pi := jx.Obj{}
	if Chance(rng, 15) {
		// a path item may carry a $ref next to its own operations and parameters: they are still part of the document
		pi["$ref"] = Pick(rng, []string{"#/x-shared/item", "other.json#/paths/~1a", "items.json"})
	}
	np := rng.IntN(3)
	if Chance(rng, 15) {
		np = 3 + rng.IntN(6) // many path-level parameters (a decoded slice of 3, 5..8 entries has spare capacity)
	}
	if np > 0 {
		var ps jx.Arr
		for i := 0; i < np; i++ {
			ps = append(ps, g.param(i))
		}
		pi["parameters"] = ps
	}
	for _, m := range MethodsAll {
		if Chance(rng, 35) {
			pi[m] = g.operation()
		}
	}
	return pi
}
