package gen

import (
	"fmt"
	"math/rand/v2"
	"strconv"
	"strings"

	"verif/harness/jx"
)

var NameRoles = []string{"definition", "property", "sharedParam", "sharedResponse", "pathTemplate", "importedDefinition", "importedProperty", "unusedDefinition", "unusedImportChain"}

// NameFeature plants a name of the given class in the given role.
func (b *Bundle) NameFeature(class, role string) {
	n := Name(b.rng, class, b.id())
	b.Tag("name:" + class)
	b.Tag("role:" + role)
	b.Tag("cell:name/" + class + "/" + role)
	use := func(ref string) {
		op := b.Op(b.newPath(), Pick(b.rng, MethodsAll), true)
		jx.AsObj(op["responses"])["200"] = jx.Obj{"description": b.lbl("u"), "schema": jx.Obj{"$ref": ref}}
	}
	switch role {
	case "definition":
		use(b.Def(n, b.Obj()))
		// also referred to from another definition
		b.Def(b.lbl("Uses"), jx.Obj{"type": "object", "description": b.lbl("ud"), "properties": jx.Obj{"x": jx.Obj{"$ref": "#/definitions/" + jx.EscTok(n)}}})
	case "property":
		// a complex inline schema under a hostile property name (moved by full flattening)
		use(b.Def(b.lbl("PropHost"), jx.Obj{"type": "object", "description": b.lbl("ph"), "properties": jx.Obj{n: b.Obj(), "plain": jx.Obj{"type": "string"}}}))
		b.Place("opParam", jx.Obj{"type": "object", "description": b.lbl("pp"), "properties": jx.Obj{n: jx.Obj{"$ref": b.Target("localDef", "")}}}, "")
	case "sharedParam":
		b.Place("sharedParam", b.Hold("property", jx.Obj{"$ref": b.Target("localDef", "")}, 1, ""), n)
	case "sharedResponse":
		b.Place("sharedResponse", b.Hold("items", jx.Obj{"$ref": b.Target("localDef", "")}, 1, ""), n)
	case "pathTemplate":
		p := "/t" + strconv.Itoa(b.id()) + "/" + n + "/{id}"
		op := b.Op(p, Pick(b.rng, MethodsAll), Chance(b.rng, 50))
		op["parameters"] = jx.Arr{jx.Obj{"name": "body", "in": "body", "schema": b.Obj()}}
		jx.AsObj(op["responses"])["200"] = jx.Obj{"description": b.lbl("pt"), "schema": b.Hold("items", jx.Obj{"$ref": b.Target("localDef", "")}, 1, "")}
	case "importedDefinition":
		f := Pick(b.rng, auxFiles)
		b.AuxDef(f, n, b.Obj())
		use(f + "#/definitions/" + jx.EscTok(n))
	case "importedProperty":
		f := Pick(b.rng, auxFiles)
		d := b.lbl("ImpHost")
		b.AuxDef(f, d, jx.Obj{"type": "object", "description": b.lbl("ih"), "properties": jx.Obj{n: b.Obj(), "r": jx.Obj{"$ref": "#/definitions/" + jx.EscTok(d) + "Sib"}}})
		b.AuxDef(f, d+"Sib", b.Obj())
		use(f + "#/definitions/" + jx.EscTok(d))
	case "unusedDefinition":
		b.Def(n, b.Obj())
		b.Tag("unused")
	case "unusedImportChain":
		// used only by an unused definition: becomes unused after that one is removed
		f := Pick(b.rng, auxFiles)
		b.AuxDef(f, n, b.Obj())
		b.Def(b.lbl("UnusedTop"), jx.Obj{"type": "object", "description": b.lbl("ut"), "properties": jx.Obj{"x": jx.Obj{"$ref": f + "#/definitions/" + jx.EscTok(n)}}})
		b.Tag("unused")
	}
	if len(b.Aux) > 0 {
		b.Tag("multi-doc")
	}
}

var CollisionKinds = []string{"exact", "case", "several", "generatedName", "oaigenTaken", "oaigen1Taken", "paramsBodyTaken", "twoImportsSameName", "caseTwinsInline", "prefixNames", "anonPointerNameTaken", "anonPointerSymbolsKey", "opKeyTwins", "opKeyTwinsWithID", "dupOperationIds", "prefixNamesRemoteRecursive", "mangleTwinsInline", "manyMembers", "generatedNamesPresent", "pathWithoutOperations", "anonPointerPrefixSibling", "deepOnlyReferrer", "twoSpellingsTwoFiles", "mergedBackNameTaken", "oaigenNamesTaken", "oaigenCaseTaken", "caseTwinDocuments", "unicodeCaseTwin", "numericNamesWithRefs"}

// KeywordNames: definition and property names that are also keywords of the schema model or words the namer treats specially.
var KeywordNames = []string{"schema", "not", "anyOf", "oneOf", "allOf", "properties", "items", "additionalProperties", "definitions", "parameters", "responses", "paths", "body", "default", "0"}

// Collision plants a name collision pattern. Imported definitions that collide are $ref-free.
func (b *Bundle) Collision(kind string) {
	b.Tag("collision:" + kind)
	b.Tag("cell:collision/" + kind)
	use := func(ref string) {
		op := b.Op(b.newPath(), Pick(b.rng, MethodsAll), true)
		jx.AsObj(op["responses"])["200"] = jx.Obj{"description": b.lbl("u"), "schema": jx.Obj{"$ref": ref}}
	}
	k := strconv.Itoa(b.id())
	switch kind {
	case "exact":
		use(b.Def("thing"+k, b.Obj()))
		b.AuxDef("sub/a.json", "thing"+k, b.Obj())
		use("sub/a.json#/definitions/thing" + k)
	case "case":
		use(b.Def("Thing"+k, b.Obj()))
		b.AuxDef("other/c.json", "thing"+k, b.Obj())
		use("other/c.json#/definitions/thing" + k)
	case "several":
		use(b.Def("multi"+k, b.Obj()))
		use(b.Def("Multi"+k, b.Obj()))
		b.AuxDef("sub/a.json", "multi"+k, b.Obj())
		b.AuxDef("other/c.json", "MULTI"+k, b.Obj())
		use("sub/a.json#/definitions/multi" + k)
		use("other/c.json#/definitions/MULTI" + k)
	case "generatedName":
		// petOwner next to pet.owner: full flattening would generate the name of an existing definition
		use(b.Def("pet"+k, jx.Obj{"type": "object", "description": b.lbl("pet"), "properties": jx.Obj{"owner": b.Obj()}}))
		use(b.Def("pet"+k+"Owner", b.Obj()))
		if Chance(b.rng, 50) {
			use(b.Def("Pet"+k+"owner", b.Obj()))
		}
	case "oaigenTaken":
		use(b.Def("item"+k, b.Obj()))
		use(b.Def("item"+k+"OAIGen", b.Obj()))
		b.AuxDef("sub/a.json", "item"+k, b.Obj())
		use("sub/a.json#/definitions/item" + k)
	case "caseTwinDocuments":
		// two auxiliary documents whose paths differ by letter case only, each with a same-named definition
		n := "Ct" + k
		b.AuxDef("sub/Models"+k+".json", n, b.refFreeSchema("object"))
		b.AuxDef("sub/models"+k+".json", n, b.refFreeSchema("object"))
		use(b.Def("ctHolder"+k, jx.Obj{"type": "object", "description": b.lbl("ct"), "properties": jx.Obj{
			"first":  jx.Obj{"$ref": "sub/Models" + k + ".json#/definitions/" + n},
			"second": jx.Obj{"$ref": "sub/models" + k + ".json#/definitions/" + n}}}))
		b.Tag("multi-doc")
	case "unicodeCaseTwin":
		// an existing definition equal to a generated name up to a case variant of another byte length
		// (U+212A KELVIN SIGN folds to 'k', U+017F LONG S to 's')
		use(b.Def("bank"+k, jx.Obj{"type": "object", "description": b.lbl("uc"), "properties": jx.Obj{"info": b.Obj(), "\u017ftate": b.Obj()}}))
		use(b.Def("ban\u212a"+k+"Info", b.refFreeSchema("object")))
		use(b.Def("bank"+k+"State", b.refFreeSchema("object")))
	case "numericNamesWithRefs":
		// numeric property and definition names whose value is a $ref that Flatten has to rewrite
		b.Def("numTarget"+k, jx.Obj{"type": "object", "description": b.lbl("nt"), "properties": jx.Obj{"x": b.Obj()}})
		use(b.Def("numHost"+k, jx.Obj{"type": "object", "description": b.lbl("nh"), "properties": jx.Obj{
			"10": jx.Obj{"$ref": b.Target("remoteDef", "")},
			"0":  jx.Obj{"$ref": "#/definitions/numTarget" + k + "/properties/x"},
			"-1": jx.Obj{"$ref": b.Target("localDef", "")}}}))
		use(b.Def("1"+k, jx.Obj{"$ref": b.Target("remoteDef", "")}))
		b.AnonPtr = true
		b.Tag("multi-doc")
	case "oaigenCaseTaken":
		// the suffixed candidates are taken too, up to letter case
		use(b.Def("item"+k, b.refFreeSchema("object")))
		use(b.Def("ITEM"+k+"oaigen", b.refFreeSchema("object")))
		use(b.Def("Item"+k+"OAIGEN1", b.refFreeSchema("object")))
		b.AuxDef("sub/a.json", "item"+k, b.refFreeSchema("object"))
		use("sub/a.json#/definitions/item" + k)
		// and for a name generated from a property path
		use(b.Def("pet"+k, jx.Obj{"type": "object", "description": b.lbl("pc"), "properties": jx.Obj{"owner": b.Obj()}}))
		use(b.Def("pet"+k+"Owner", b.refFreeSchema("object")))
		use(b.Def("pet"+k+"ownerOAIGen", b.refFreeSchema("object")))
		b.Tag("multi-doc")
	case "oaigen1Taken":
		use(b.Def("elem"+k, b.Obj()))
		use(b.Def("elem"+k+"OAIGen", b.Obj()))
		use(b.Def("elem"+k+"OAIGen1", b.Obj()))
		b.AuxDef("sub/a.json", "elem"+k, b.Obj())
		use("sub/a.json#/definitions/elem" + k)
	case "paramsBodyTaken":
		p := "/pb" + k
		op := b.Op(p, "get", false)
		op["operationId"] = "getPb" + k
		op["parameters"] = jx.Arr{jx.Obj{"name": "body", "in": "body", "schema": b.Obj()}}
		jx.AsObj(op["responses"])["200"] = jx.Obj{"description": b.lbl("ok"), "schema": b.Obj()}
		use(b.Def("getPb"+k+"ParamsBody", b.Obj()))
		use(b.Def("getPb"+k+"OKBody", b.Obj()))
	case "caseTwinsInline":
		// two pre-existing definitions differing by case only, each with a complex inline schema at the same place:
		// full flattening derives the same name for both
		for _, n := range []string{"Twin" + k, "twin" + k} {
			use(b.Def(n, jx.Obj{"type": "object", "description": b.lbl("tw"), "properties": jx.Obj{"meta": b.Obj(), "list": jx.Obj{"type": "array", "items": b.Obj()}}}))
		}
	case "opKeyTwins", "opKeyTwinsWithID":
		// operations without an id are named after method and path; these paths differ only in
		// characters that the name mangler drops, so the generated operation names coincide
		method := Pick(b.rng, MethodsAll)
		paths := []string{"/tw" + k + "/x-y", "/tw" + k + "/x_y", "/tw" + k + "/x/y", "/tw" + k + "/x.y"}
		n := 2 + b.rng.IntN(3)
		for i, p := range paths[:n] {
			op := b.Op(p, method, false)
			if kind == "opKeyTwinsWithID" && i == 0 {
				// an explicit id equal to the name generated for the others
				op["operationId"] = strings.ToUpper(method[:1]) + method[1:] + "Tw" + k + "XY"
			}
			body := b.Obj()
			body["description"] = b.lbl("twin-body")
			jx.AsObj(body["properties"])["twin"+strconv.Itoa(i)] = b.Obj()
			op["parameters"] = jx.Arr{jx.Obj{"name": "body", "in": "body", "schema": body}}
			resp := b.Obj()
			jx.AsObj(resp["properties"])["r"+strconv.Itoa(i)] = jx.Obj{"type": "array", "items": b.Obj()}
			jx.AsObj(op["responses"])["200"] = jx.Obj{"description": b.lbl("tw"), "schema": resp}
		}
	case "dupOperationIds":
		// the same explicit id on several operations (same method, same path, neither): each still owns inline schemas
		id := "dupOp" + k
		p1, p2 := "/dup"+k+"/a", "/dup"+k+"/b"
		for i, mp := range [][2]string{{"get", p1}, {"get", p2}, {"post", p1}, {"put", "/dup" + k + "/c"}} {
			op := b.Op(mp[1], mp[0], false)
			op["operationId"] = id
			body := b.Obj()
			jx.AsObj(body["properties"])["dup"+strconv.Itoa(i)] = b.Obj()
			op["parameters"] = jx.Arr{jx.Obj{"name": "body", "in": "body", "schema": body}}
			jx.AsObj(op["responses"])["200"] = jx.Obj{"description": b.lbl("dup"), "schema": jx.Obj{"type": "array", "items": b.Obj()}}
		}
	case "anonPointerPrefixSibling":
		// an anonymous pointer whose own key extends its target's key as a string (sibling 'name' -> 'n', 'x2' -> 'x')
		tgt := b.Obj()
		if Chance(b.rng, 50) {
			tgt = b.Prim()
		}
		use(b.Def("pfx"+k, jx.Obj{"type": "object", "description": b.lbl("pf"), "properties": jx.Obj{
			"n": tgt, "name": jx.Obj{"$ref": "#/definitions/pfx" + k + "/properties/n"},
			"x": b.Prim(), "x2": jx.Obj{"$ref": "#/definitions/pfx" + k + "/properties/x"}}}))
		b.AnonPtr = true
	case "deepOnlyReferrer":
		// the only referrer of a definition sits very deep (about 70 pointer segments)
		leafDef := b.Def("deepLeaf"+k, b.Obj())
		use(b.Def("deepTree"+k, b.Hold("property", jx.Obj{"type": "object", "description": b.lbl("dl"), "properties": jx.Obj{
			"leaf": jx.Obj{"$ref": leafDef}, "list": jx.Obj{"type": "array", "items": jx.Obj{"$ref": b.Def("deepLabel"+k, b.Prim())}}}}, 34, "lvl")))
	case "twoSpellingsTwoFiles":
		// one remote definition under two spellings of its file, a same-named definition of another file sorting between them
		n := "Sp" + k
		b.AuxDef("b.json", n, b.refFreeSchema("object"))
		b.AuxDef("a.json", n, b.refFreeSchema("object"))
		use(b.Def("spHolder"+k, jx.Obj{"type": "object", "description": b.lbl("sp"), "properties": jx.Obj{"p": jx.Obj{"$ref": "./b.json#/definitions/" + n}}}))
		use("b.json#/definitions/" + n)
		use("a.json#/definitions/" + n)
		b.Tag("multi-doc")
	case "mergedBackNameTaken":
		// an import colliding with a root definition is merged back into a response whose generated name is taken too
		id := "getMb" + k
		b.Def("foo"+k, b.refFreeSchema("object"))
		b.Def(id+"OKBody", b.refFreeSchema("object"))
		b.AuxDef("sub/a.json", "foo"+k, b.refFreeSchema("object"))
		for i, oid := range []string{id, "getMz" + k} {
			op := b.Op("/mb"+k+"/"+strconv.Itoa(i), "get", false)
			op["operationId"] = oid
			jx.AsObj(op["responses"])["200"] = jx.Obj{"description": b.lbl("mb"), "schema": jx.Obj{"$ref": "sub/a.json#/definitions/foo" + k}}
		}
		use("#/definitions/foo" + k)
		use("#/definitions/" + id + "OKBody")
		b.Tag("multi-doc")
	case "oaigenNamesTaken":
		// x, xOAIGen and xOAIGen1 are all taken when another x arrives
		n := "tk" + k
		for _, d := range []string{n, n + "OAIGen", n + "OAIGen1"} {
			use(b.Def(d, b.refFreeSchema("object")))
		}
		b.AuxDef("sub/a.json", n, b.refFreeSchema("object"))
		use("sub/a.json#/definitions/" + n)
		b.AuxDef("other/c.json", n, b.refFreeSchema("prim"))
		use("other/c.json#/definitions/" + n)
		b.Tag("multi-doc")
	case "pathWithoutOperations":
		// a path item that declares path-level parameters and no operation at all (legal, if useless)
		p := "/noops" + k + "/{id}"
		jx.AsObj(b.Root["paths"])[p] = jx.Obj{"parameters": jx.Arr{
			jx.Obj{"name": "body", "in": "body", "schema": b.Hold(Pick(b.rng, BundleHolders), b.Obj(), 1, "")},
			jx.Obj{"name": "id", "in": "path", "type": "string", "required": true}}}
		p2 := "/noops" + k + "/refs"
		jx.AsObj(b.Root["paths"])[p2] = jx.Obj{"parameters": jx.Arr{
			jx.Obj{"name": "body", "in": "body", "schema": jx.Obj{"type": "object", "description": b.lbl("no"), "properties": jx.Obj{
				"l": jx.Obj{"$ref": b.Target("localDef", "")}, "r": jx.Obj{"$ref": b.Target("remoteDef", "")}, "i": b.Obj()}}}}}
		b.Plant("property", "codeResponse", "localDef", 1)
	case "mangleTwinsInline":
		// sibling property names that the name mangler turns into the same word, each holding a complex inline schema:
		// two names generated in the same pass meet
		props := jx.Obj{"plain": jx.Obj{"type": "string"}}
		for _, n := range []string{"foo_bar", "fooBar", "foo-bar", "Foo Bar"}[:2+b.rng.IntN(3)] {
			props[n] = b.Obj()
		}
		use(b.Def("mt"+k, jx.Obj{"type": "object", "description": b.lbl("mt"), "properties": props}))
		b.Place("codeResponse", jx.Obj{"type": "object", "description": b.lbl("mtr"), "properties": jx.Obj{"a_b": b.Obj(), "aB": b.Obj()}}, "")
	case "manyMembers":
		// more than ten members: indices with two digits in keys (allOf/10 sorts before allOf/2 as text)
		var all, tup jx.Arr
		for i := 0; i < 12; i++ {
			if i%5 == 0 {
				all = append(all, jx.Obj{"$ref": b.Target("localDef", "")})
				tup = append(tup, jx.Obj{"$ref": b.Target("remoteDef", "")})
			} else {
				all = append(all, b.Obj())
				tup = append(tup, b.Obj())
			}
		}
		use(b.Def("many"+k, jx.Obj{"description": b.lbl("mm"), "allOf": all}))
		b.Place("codeResponse", jx.Obj{"type": "array", "description": b.lbl("mmt"), "items": tup}, "")
	case "generatedNamesPresent":
		// the input already holds definitions named like Flatten's own output (the output of an earlier run extended by
		// hand): they are existing definitions
		op := b.Op(b.newPath(), "get", false)
		id := "gen" + k
		op["operationId"] = id
		jx.AsObj(op["responses"])["200"] = jx.Obj{"description": b.lbl("g"), "schema": b.Obj()}
		op["parameters"] = jx.Arr{jx.Obj{"name": "body", "in": "body", "schema": b.Obj()}}
		for _, n := range []string{id + "OKBody", id + "ParamsBody"} {
			// (without Flatten's own x-go-gen-location marker: what happens to a marker that the input already carries
			// is not something the statements speak about)
			use(b.Def(n, b.Obj()))
		}
	case "prefixNamesRemoteRecursive":
		// a root definition whose (mangled) name is a proper prefix of an imported recursive definition's, which is the
		// only holder of a $ref to a third one; after expansion the root definition is unused
		b.Def("tree"+k, b.Obj())
		use("#/definitions/tree" + k)
		b.AuxDef("sub/a.json", "Tree"+k+"Node", jx.Obj{"type": "object", "description": b.lbl("tn"), "properties": jx.Obj{
			"children": jx.Obj{"type": "array", "items": jx.Obj{"$ref": "#/definitions/Tree" + k + "Node"}},
			"label":    jx.Obj{"$ref": "#/definitions/Label" + k}}})
		b.AuxDef("sub/a.json", "Label"+k, b.Obj())
		use("sub/a.json#/definitions/Tree" + k + "Node")
		b.Tag("cycle")
		b.Tag("unused")
		b.Tag("multi-doc")
	case "prefixNames":
		// a definition name that is a proper prefix of another one; the longer-named one is the only referrer of a chain
		use(b.Def("Acct"+k+"Settings", jx.Obj{"type": "object", "description": b.lbl("px"), "properties": jx.Obj{"theme": jx.Obj{"$ref": "#/definitions/Theme" + k}}}))
		b.Def("Theme"+k, jx.Obj{"type": "object", "description": b.lbl("px"), "properties": jx.Obj{"color": jx.Obj{"$ref": "#/definitions/Color" + k}}})
		b.Def("Color"+k, b.Obj())
		b.Def("Acct"+k, b.Obj())                                                                                                                         // unused, and a prefix of the used one
		b.Def("Acct"+k+"Set", jx.Obj{"type": "object", "description": b.lbl("px"), "properties": jx.Obj{"x": jx.Obj{"$ref": "#/definitions/Acct" + k}}}) // unused too
		b.Tag("unused")
	case "anonPointerNameTaken", "anonPointerSymbolsKey":
		// an anonymous pointer whose target would be named like an existing definition
		// (taken name, or a property name without letter or digit: the generated name is the host's)
		host, key := "host"+k, "owner"
		if kind == "anonPointerSymbolsKey" {
			key = Pick(b.rng, []string{"{}", "[?]", "{}???", "~"})
		} else {
			use(b.Def(host+"Owner", b.Obj()))
		}
		sub := b.Obj()
		if Chance(b.rng, 40) {
			sub = b.Prim()
		}
		use(b.Def(host, jx.Obj{"type": "object", "description": b.lbl("aph"), "properties": jx.Obj{key: sub, "q": jx.Obj{"type": "string"}}}))
		b.AnonPtr = true
		ref := "#/definitions/" + host + "/properties/" + jx.EscTok(key)
		for _, c := range []string{"sharedParam", "codeResponse", "definition"}[:1+b.rng.IntN(3)] {
			b.Place(c, jx.Obj{"$ref": ref}, "")
		}
	case "twoImportsSameName":
		b.AuxDef("sub/a.json", "dup"+k, b.Obj())
		b.AuxDef("other/c.json", "dup"+k, b.Obj())
		use("sub/a.json#/definitions/dup" + k)
		use("other/c.json#/definitions/dup" + k)
	}
	if len(b.Aux) > 0 {
		b.Tag("multi-doc")
	}
}

var NonSchemaRefKinds = []string{"opParamRef", "pathParamRef", "defaultResponseRef", "codeResponseRef", "pathItemRef", "remoteParamRef", "remoteResponseRef", "remotePathItemRef", "remoteResponseRefRecursive", "remoteParamRefRecursive"}

// NonSchemaRef plants a parameter / response / path-item $ref to a shared object.
func (b *Bundle) NonSchemaRef(kind string) {
	b.Tag("nonschema:" + kind)
	b.Tag("cell:nonschema/" + kind)
	k := strconv.Itoa(b.id())
	sharedParam := func(doc jx.Obj, n string, schema jx.Obj) {
		b.section(doc, "parameters")[n] = jx.Obj{"name": "body", "in": "body", "schema": schema}
	}
	switch kind {
	case "opParamRef", "pathParamRef":
		n := "sp" + k
		sharedParam(b.Root, n, b.Hold("property", jx.Obj{"$ref": b.Target("localDef", "")}, 1, ""))
		// a simple shared parameter with items carrying a pattern and an enum (indexes that shrink when it is dropped)
		b.section(b.Root, "parameters")["q"+k] = jx.Obj{"name": "q" + k, "in": "query", "type": "array", "description": b.lbl("qp"),
			"items": jx.Obj{"type": "string", "pattern": "^q" + k, "enum": jx.Arr{"a" + k, "b"}}}
		p := b.newPath()
		op := b.Op(p, Pick(b.rng, MethodsAll), true)
		refs := jx.Arr{jx.Obj{"$ref": "#/parameters/" + n}, jx.Obj{"$ref": "#/parameters/q" + k}}
		if kind == "opParamRef" {
			op["parameters"] = refs
		} else {
			jx.AsObj(jx.AsObj(b.Root["paths"])[p])["parameters"] = refs
		}
	case "defaultResponseRef", "codeResponseRef":
		n := "sr" + k
		b.section(b.Root, "responses")[n] = jx.Obj{"description": b.lbl("sr"), "schema": b.Hold("items", jx.Obj{"$ref": b.Target("localDef", "")}, 1, ""),
			"headers": jx.Obj{"X-Rate": jx.Obj{"type": "integer", "description": b.lbl("hd")},
				"X-Tags": jx.Obj{"type": "array", "items": jx.Obj{"type": "string", "pattern": "^t" + k, "enum": jx.Arr{"t" + k, "u"}}},
				"X-Mode": jx.Obj{"type": "string", "pattern": "^m" + k, "enum": jx.Arr{"on", "off"}}}}
		op := b.Op(b.newPath(), Pick(b.rng, MethodsAll), true)
		// a shared response made of headers only (no schema)
		b.section(b.Root, "responses")["moved"+k] = jx.Obj{"description": b.lbl("mv"), "headers": jx.Obj{
			"Location": jx.Obj{"type": "string", "pattern": "^/l" + k},
			"X-List":   jx.Obj{"type": "array", "items": jx.Obj{"type": "string", "enum": jx.Arr{"x" + k}}}}}
		jx.AsObj(op["responses"])["301"] = jx.Obj{"$ref": "#/responses/moved" + k}
		key := "default"
		if kind == "codeResponseRef" {
			key = "404"
		}
		jx.AsObj(op["responses"])[key] = jx.Obj{"$ref": "#/responses/" + n}
		// a second user of the same shared response
		op2 := b.Op(b.newPath(), Pick(b.rng, MethodsAll), false)
		jx.AsObj(op2["responses"])["500"] = jx.Obj{"$ref": "#/responses/" + n}
	case "pathItemRef":
		items := b.section(b.Root, "x-shared-paths")
		items["item"+k] = jx.Obj{"get": jx.Obj{"operationId": b.lbl("sharedGet"), "responses": jx.Obj{"200": jx.Obj{"description": b.lbl("pi"), "schema": jx.Obj{"$ref": b.Target("localDef", "")}}}}}
		jx.AsObj(b.Root["paths"])[b.newPath()] = jx.Obj{"$ref": "#/x-shared-paths/item" + k}
	case "remoteParamRef":
		f := "sub/a.json"
		b.AuxDef(f, "RP"+k, b.Obj())
		sharedParam(b.aux(f), "rp"+k, jx.Obj{"$ref": "#/definitions/RP" + k})
		op := b.Op(b.newPath(), Pick(b.rng, MethodsAll), true)
		op["parameters"] = jx.Arr{jx.Obj{"$ref": f + "#/parameters/rp" + k}}
	case "remoteResponseRef":
		f := "other/c.json"
		b.AuxDef(f, "RR"+k, b.Obj())
		b.section(b.aux(f), "responses")["rr"+k] = jx.Obj{"description": b.lbl("rr"), "schema": jx.Obj{"type": "array", "items": jx.Obj{"$ref": "#/definitions/RR" + k}}}
		op := b.Op(b.newPath(), Pick(b.rng, MethodsAll), true)
		jx.AsObj(op["responses"])["200"] = jx.Obj{"$ref": f + "#/responses/rr" + k}
	case "remoteResponseRefRecursive":
		// a remote response whose schema is a $ref local to the auxiliary document, to a self-recursive definition
		// which is also reached from a sibling document under another spelling
		f := "sub/a.json"
		b.AuxDef(f, "Inner"+k, jx.Obj{"type": "object", "description": b.lbl("in"), "properties": jx.Obj{"i": jx.Obj{"type": "integer"}, "again": jx.Obj{"$ref": "#/definitions/Inner" + k}}})
		b.section(b.aux(f), "responses")["rec"+k] = jx.Obj{"description": b.lbl("rr"), "schema": jx.Obj{"$ref": "#/definitions/Inner" + k}}
		b.AuxDef("sub/s.json", "Sib"+k, jx.Obj{"type": "object", "description": b.lbl("sb"), "properties": jx.Obj{"w": jx.Obj{"$ref": "a.json#/definitions/Inner" + k}}})
		op := b.Op(b.newPath(), Pick(b.rng, MethodsAll), true)
		jx.AsObj(op["responses"])["200"] = jx.Obj{"$ref": f + "#/responses/rec" + k}
		jx.AsObj(op["responses"])["201"] = jx.Obj{"description": b.lbl("sib"), "schema": jx.Obj{"$ref": "sub/s.json#/definitions/Sib" + k}}
		b.Tag("cycle")
	case "remoteParamRefRecursive":
		f := "other/c.json"
		b.AuxDef(f, "PInner"+k, jx.Obj{"type": "object", "description": b.lbl("pin"), "properties": jx.Obj{"again": jx.Obj{"type": "array", "items": jx.Obj{"$ref": "#/definitions/PInner" + k}}}})
		sharedParam(b.aux(f), "prec"+k, jx.Obj{"$ref": "#/definitions/PInner" + k})
		b.AuxDef("other/d.json", "PSib"+k, jx.Obj{"type": "object", "description": b.lbl("psb"), "properties": jx.Obj{"w": jx.Obj{"$ref": "c.json#/definitions/PInner" + k}}})
		p := b.newPath()
		op := b.Op(p, Pick(b.rng, MethodsAll), true)
		jx.AsObj(jx.AsObj(b.Root["paths"])[p])["parameters"] = jx.Arr{jx.Obj{"$ref": f + "#/parameters/prec" + k}}
		jx.AsObj(op["responses"])["200"] = jx.Obj{"description": b.lbl("sib"), "schema": jx.Obj{"$ref": "other/d.json#/definitions/PSib" + k}}
		b.Tag("cycle")
	case "remotePathItemRef":
		f := "sub/deep/b.json"
		b.AuxDef(f, "RPI"+k, b.Obj())
		b.section(b.aux(f), "x-items")["it"+k] = jx.Obj{"post": jx.Obj{"operationId": b.lbl("remotePost"),
			"parameters": jx.Arr{jx.Obj{"name": "body", "in": "body", "schema": jx.Obj{"$ref": "#/definitions/RPI" + k}}},
			"responses":  jx.Obj{"201": jx.Obj{"description": b.lbl("rpi")}}}}
		jx.AsObj(b.Root["paths"])[b.newPath()] = jx.Obj{"$ref": f + "#/x-items/it" + k}
	}
	if len(b.Aux) > 0 {
		b.Tag("multi-doc")
	}
}

// UnusedChain plants a chain of `length` definitions nothing in the operations refers to:
// U1 -> U2 -> ... (each becomes unused only after its predecessor is removed).
func (b *Bundle) UnusedChain(length int, class string, selfRef bool) {
	b.Tag("unused")
	b.Tag(fmt.Sprintf("cell:unused/chain%d/%s", length, class))
	names := make([]string, length)
	for i := range names {
		names[i] = Name(b.rng, class, b.id())
	}
	for i, n := range names {
		props := jx.Obj{"v": jx.Obj{"type": "string"}}
		if i+1 < length {
			props["next"] = jx.Obj{"$ref": "#/definitions/" + jx.EscTok(names[i+1])}
		} else if selfRef {
			props["self"] = jx.Obj{"$ref": "#/definitions/" + jx.EscTok(n)}
		}
		b.Def(n, jx.Obj{"type": "object", "description": b.lbl("uc"), "properties": props})
	}
}

// twinSeparators: the character after which twin names differ, per name class.
var twinSeparators = map[string][2]string{"ident": {"", ""}, "space": {" ", ""}, "unicode": {"é", "ß"}, "slash": {"/", ""}, "tilde": {"~", ""},
	"qmark": {"?", ""}, "hash": {"#", ""}, "bracket": {"[", "]"}, "brace": {"{", "}"}}

// NameTwins plants two (or three) names of one class that are equal up to what follows the class's special character
// ("Pet#v1" / "Pet#v2"), side by side in the same role: a slip that truncates or mangles a name at that character
// makes them meet.
func (b *Bundle) NameTwins(class, role string) {
	sep := twinSeparators[class]
	base := Pick(b.rng, idents) + strconv.Itoa(b.id()) + sep[0]
	var names []string
	for i := 1; i <= 2+b.rng.IntN(2); i++ {
		names = append(names, base+"v"+strconv.Itoa(i)+sep[1])
	}
	b.Tag("name:" + class)
	b.Tag("cell:name-twins/" + class + "/" + role)
	use := func(ref string) {
		op := b.Op(b.newPath(), Pick(b.rng, MethodsAll), true)
		jx.AsObj(op["responses"])["200"] = jx.Obj{"description": b.lbl("u"), "schema": jx.Obj{"$ref": ref}}
	}
	switch role {
	case "definition":
		for _, n := range names {
			use(b.Def(n, b.Obj()))
		}
	case "importedDefinition":
		f := Pick(b.rng, auxFiles)
		holder := jx.Obj{}
		for i, n := range names {
			b.AuxDef(f, n, b.Obj())
			if i == 0 {
				use(f + "#/definitions/" + jx.EscTok(n))
			} else {
				holder["p"+strconv.Itoa(i)] = jx.Obj{"$ref": f + "#/definitions/" + jx.EscTok(n)}
			}
		}
		use(b.Def(b.lbl("TwinHolder"), jx.Obj{"type": "object", "description": b.lbl("th"), "properties": holder}))
	case "property":
		props := jx.Obj{"plain": jx.Obj{"type": "string"}}
		for _, n := range names {
			props[n] = b.Obj()
		}
		use(b.Def(b.lbl("TwinHost"), jx.Obj{"type": "object", "description": b.lbl("tw"), "properties": props}))
	case "importedProperty":
		f := Pick(b.rng, auxFiles)
		props := jx.Obj{}
		for _, n := range names {
			props[n] = b.Obj()
		}
		d := b.lbl("ImpTwinHost")
		b.AuxDef(f, d, jx.Obj{"type": "object", "description": b.lbl("it"), "properties": props})
		use(f + "#/definitions/" + jx.EscTok(d))
	}
	if len(b.Aux) > 0 {
		b.Tag("multi-doc")
	}
}

// UnusedLinks plants a chain (or a cycle) of unused definitions whose links are of the given kinds
// (alias = the definition is nothing but a $ref).
func (b *Bundle) UnusedLinks(kinds []string, cycle bool) {
	b.Tag("unused")
	b.Tag(fmt.Sprintf("cell:unused/links/%s/cycle=%v", strings.Join(kinds, "+"), cycle))
	names := make([]string, len(kinds)+1)
	for i := range names {
		names[i] = b.lbl("Un")
	}
	for i, n := range names {
		var target string
		switch {
		case i < len(kinds):
			target = "#/definitions/" + names[i+1]
		case cycle:
			target = "#/definitions/" + names[0]
		default:
			b.Def(n, b.Obj())
			continue
		}
		kind := "property"
		if i < len(kinds) {
			kind = kinds[i]
		}
		ref := jx.Obj{"$ref": target}
		var d jx.Obj
		switch kind {
		case "alias":
			d = ref
		case "allOf":
			d = jx.Obj{"description": b.lbl("ul"), "allOf": jx.Arr{ref, jx.Obj{"type": "object", "properties": jx.Obj{"v": jx.Obj{"type": "string"}}}}}
		case "items":
			d = jx.Obj{"type": "array", "description": b.lbl("ul"), "items": ref}
		case "addProps":
			d = jx.Obj{"type": "object", "description": b.lbl("ul"), "additionalProperties": ref}
		default:
			d = jx.Obj{"type": "object", "description": b.lbl("ul"), "properties": jx.Obj{"next": ref}}
		}
		b.Def(n, d)
	}
}

// KeywordName plants a definition (and a property) named like a keyword, holding complex inline schemas under
// each holder keyword (a name that is also a key word of the pointer grammar must not change how the key is read).
func (b *Bundle) KeywordName(name, holder string) {
	b.Tag("cell:keyword-name/" + name + "/" + holder)
	inner := b.Obj()
	b.Def(name, b.Hold(holder, inner, 1, name))
	op := b.Op(b.newPath(), Pick(b.rng, MethodsAll), true)
	jx.AsObj(op["responses"])["200"] = jx.Obj{"description": b.lbl("kw"), "schema": jx.Obj{"$ref": "#/definitions/" + jx.EscTok(name)}}
	// the same name as a property holding a complex schema, in a response
	b.Place("codeResponse", jx.Obj{"type": "object", "description": b.lbl("kwp"), "properties": jx.Obj{name: b.Hold(holder, b.Obj(), 1, name)}}, "")
}

// RefSiblings plants a schema that has a $ref AND a sibling keyword which itself holds a $ref to a definition that
// nothing else refers to, next to a twin without the sibling. A resolver ignores the siblings of a $ref, the document
// still contains them: the definition they refer to is in use.
func (b *Bundle) RefSiblings(sibling, where string) {
	b.Tag("cell:ref-siblings/" + sibling + "/" + where)
	k := strconv.Itoa(b.id())
	b.Def("Party"+k, b.Obj())
	b.Def("Addr"+k, b.Obj())
	inner := jx.Obj{"$ref": "#/definitions/Addr" + k}
	withSib := jx.Obj{"$ref": "#/definitions/Party" + k}
	switch sibling {
	case "properties":
		withSib["properties"] = jx.Obj{"address": inner}
	case "items":
		withSib["items"] = inner
	case "allOf":
		withSib["allOf"] = jx.Arr{inner}
	case "additionalProperties":
		withSib["additionalProperties"] = inner
	}
	twin := jx.Obj{"$ref": "#/definitions/Party" + k}
	switch where {
	case "defProperty":
		n := "Order" + k
		b.Def(n, jx.Obj{"type": "object", "description": b.lbl("rs"), "properties": jx.Obj{"buyer": twin, "seller": withSib}})
		op := b.Op(b.newPath(), Pick(b.rng, MethodsAll), true)
		jx.AsObj(op["responses"])["200"] = jx.Obj{"description": b.lbl("u"), "schema": jx.Obj{"$ref": "#/definitions/" + n}}
	default:
		b.Place(where, jx.Obj{"type": "object", "description": b.lbl("rs"), "properties": jx.Obj{"buyer": twin, "seller": withSib}}, "")
	}
}

// Files renders the bundle: every document in spec-model normal form, canonical key order.
func (b *Bundle) Files(nf func(jx.Obj) jx.Obj) map[string]string {
	out := map[string]string{"root.json": string(jx.Canon(nf(b.Root)))}
	for f, d := range b.Aux {
		if _, isDoc := d["swagger"]; !isDoc {
			// a document that is a bare schema: the normal form of the Swagger model would erase it
			out[f] = string(jx.Canon(d))
			continue
		}
		out[f] = string(jx.Canon(nf(d)))
	}
	return out
}

// ---- systematic corpus ----

type sysSpec struct {
	name string
	mk   func(b *Bundle)
}

func sysSpecs() []sysSpec {
	var out []sysSpec
	add := func(n string, f func(b *Bundle)) { out = append(out, sysSpec{n, f}) }
	for _, h := range BundleHolders {
		for _, c := range BundleContainers {
			for _, t := range BundleTargets {
				h, c, t := h, c, t
				add(fmt.Sprintf("plant/%s/%s/%s", h, c, t), func(b *Bundle) { b.Plant(h, c, t, 1) })
			}
		}
	}
	for _, h := range ExtendedHolders {
		for _, c := range []string{"definition", "opParam", "codeResponse"} {
			for _, t := range []string{"localDef", "remoteDef", "anonProperty", "inlineObject", "inlineTuple", "inlineAllOf", "inlineAllOfMap"} {
				h, c, t := h, c, t
				add(fmt.Sprintf("extended/%s/%s/%s", h, c, t), func(b *Bundle) { b.Tag("extended"); b.Plant(h, c, t, 1) })
			}
		}
	}
	for _, h := range BundleHolders[1:] {
		for depth := 2; depth <= 4; depth++ {
			for _, t := range []string{"localDef", "remoteDef", "anonProperty"} {
				h, depth, t := h, depth, t
				c := BundleContainers[(depth+len(h))%len(BundleContainers)]
				add(fmt.Sprintf("deep/%s/depth%d/%s/%s", h, depth, c, t), func(b *Bundle) { b.Tag(fmt.Sprintf("depth:%d", depth)); b.Plant(h, c, t, depth) })
			}
		}
	}
	for _, cl := range NameClasses {
		for _, r := range NameRoles {
			cl, r := cl, r
			add(fmt.Sprintf("name/%s/%s", cl, r), func(b *Bundle) { b.NameFeature(cl, r) })
		}
	}
	for _, cl := range NameClasses {
		for _, r := range []string{"importedDefinition", "property", "definition"} {
			cl, r := cl, r
			// two names of the same class in the same role (names that are mangled alike meet each other)
			add(fmt.Sprintf("name-pair/%s/%s", cl, r), func(b *Bundle) { b.NameFeature(cl, r); b.NameFeature(cl, r); b.Tag("cell:name-pair/" + cl + "/" + r) })
		}
	}
	for _, cl := range NameClasses {
		if _, ok := twinSeparators[cl]; !ok {
			continue
		}
		for _, r := range []string{"definition", "importedDefinition", "property", "importedProperty"} {
			cl, r := cl, r
			add(fmt.Sprintf("name-twins/%s/%s", cl, r), func(b *Bundle) { b.NameTwins(cl, r) })
		}
	}
	for _, ks := range [][]string{{"alias"}, {"alias", "property"}, {"property", "alias"}, {"alias", "alias"}, {"allOf"}, {"items", "addProps"}, {"alias", "allOf", "items"}} {
		for _, cyc := range []bool{false, true} {
			ks, cyc := ks, cyc
			add(fmt.Sprintf("unused/links/%s/cycle=%v", strings.Join(ks, "+"), cyc), func(b *Bundle) {
				b.UnusedLinks(ks, cyc)
				b.Plant("property", "codeResponse", "localDef", 1)
			})
		}
	}
	// two different holder keywords nested in each other (a key such as .../items/not or .../additionalProperties/allOf/0)
	mi := 0
	for _, outer := range []string{"items", "additionalProperties", "additionalItems", "tuple", "property", "allOf", "patternProperties", "not"} {
		for _, inner := range []string{"not", "anyOf", "oneOf", "allOf", "items", "property", "additionalProperties", "tuple", "additionalItems"} {
			if outer == inner {
				continue
			}
			for _, leaf := range []string{"inlineObject", "localDef", "remoteDef"} {
				outer, inner, leaf := outer, inner, leaf
				cont := []string{"definition", "codeResponse", "opParam"}[mi%3]
				mi++
				add(fmt.Sprintf("mixed/%s/%s/%s/%s", outer, inner, leaf, cont), func(b *Bundle) {
					b.Tag("extended")
					b.Tag("cell:mixed/" + outer + "/" + inner + "/" + leaf)
					l := b.InlineLeaf(leaf)
					if l == nil {
						l = jx.Obj{"$ref": b.Target(leaf, "")}
					}
					b.Place(cont, b.Hold(outer, b.Hold(inner, l, 1, ""), 1, ""), "")
					if len(b.Aux) > 0 {
						b.Tag("multi-doc")
					}
				})
			}
		}
	}
	for _, n := range KeywordNames {
		for _, h := range []string{"property", "not", "allOf", "items", "additionalProperties", "tuple"} {
			n, h := n, h
			add(fmt.Sprintf("keyword-name/%s/%s", n, h), func(b *Bundle) { b.Tag("extended"); b.KeywordName(n, h) })
		}
	}
	for _, sib := range []string{"properties", "items", "allOf", "additionalProperties"} {
		for _, wh := range []string{"defProperty", "codeResponse", "opParam", "sharedResponse"} {
			sib, wh := sib, wh
			add(fmt.Sprintf("ref-siblings/%s/%s", sib, wh), func(b *Bundle) { b.RefSiblings(sib, wh) })
		}
	}
	for _, k := range CollisionKinds {
		k := k
		add("collision/"+k, func(b *Bundle) { b.Collision(k) })
	}
	for v := 0; v < 6; v++ {
		for _, k := range []string{"anonPointerNameTaken", "anonPointerSymbolsKey"} {
			k, v := k, v
			add(fmt.Sprintf("collision/%s/v%d", k, v), func(b *Bundle) { b.id(); b.Collision(k) })
		}
	}
	for _, k := range NonSchemaRefKinds {
		k := k
		add("nonschema/"+k, func(b *Bundle) { b.NonSchemaRef(k) })
	}
	for l := 1; l <= 4; l++ {
		for _, cl := range NameClasses {
			l, cl := l, cl
			add(fmt.Sprintf("unused/chain%d/%s", l, cl), func(b *Bundle) {
				b.UnusedChain(l, cl, l%2 == 0)
				b.Plant("property", "codeResponse", "localDef", 1)
			})
		}
	}
	for ri, rel := range CollisionRels {
		for ki, kind := range CollisionSchemaKinds {
			for wi, where := range collisionWhereSets() {
				rel, kind, where := rel, kind, where
				used := (ri+ki+wi)%2 == 0
				add(fmt.Sprintf("collisionx/%s/%s/%s/used=%v", rel, kind, strings.Join(where, "+"), used), func(b *Bundle) { b.CollisionX(rel, kind, where, used) })
			}
		}
	}
	// several callers of one anonymous pointer
	for _, t := range []string{"anonProperty", "anonItems", "anonAllOf", "anonSharedParam", "anonSharedResponse"} {
		t := t
		add("callers/"+t, func(b *Bundle) {
			ref := b.Target(t, "")
			b.Tag("several-callers")
			b.Tag("cell:callers/" + t)
			b.Tag("target:" + t)
			for i, c := range []string{"opParam", "codeResponse", "definition"} {
				b.Place(c, b.Hold(BundleHolders[i+1], jx.Obj{"$ref": ref}, 1, ""), "")
			}
		})
	}
	return out
}

var sysCache []sysSpec

func SysBundleCount() int {
	if sysCache == nil {
		sysCache = sysSpecs()
	}
	return len(sysCache)
}

// SysBundle builds the i-th bundle of the systematic corpus (the same for every seed).
func SysBundle(i int) (*Bundle, string) {
	SysBundleCount()
	b := NewBundle(rand.New(rand.NewPCG(12345, uint64(i))))
	sysCache[i].mk(b)
	return b, sysCache[i].name
}

// AllBundleCells lists every cell of the systematic feature matrix.
func AllBundleCells() []string {
	seen := map[string]bool{}
	var out []string
	for i := 0; i < SysBundleCount(); i++ {
		b, _ := SysBundle(i)
		for t := range b.Tags {
			if len(t) > 5 && t[:5] == "cell:" && !seen[t] {
				seen[t] = true
				out = append(out, t)
			}
		}
	}
	return out
}

// RndBundle composes 3..12 features drawn by the PRNG.
func RndBundle(rng *rand.Rand, maxFeatures int) *Bundle {
	b := NewBundle(rng)
	b.hostile = Chance(rng, 50)
	n := 3 + rng.IntN(maxFeatures-2)
	single := Chance(rng, 25) // single-document bundles (KeepNames applies)
	for i := 0; i < n; i++ {
		switch k := rng.IntN(100); {
		case k < 50:
			h := Pick(rng, BundleHolders)
			if Chance(rng, 8) {
				h = Pick(rng, ExtendedHolders)
				b.Tag("extended")
			}
			t := Pick(rng, BundleTargets)
			if single {
				for t == "remoteDef" || t == "remoteChain" || t == "remoteRecursive" || t == "remoteCrossFileCycle" || t == "remoteSiblingCircular" || t == "remoteSameNameDocs" || t == "remoteSameNameDocsRecursive" {
					t = Pick(rng, BundleTargets)
				}
			}
			b.Plant(h, Pick(rng, BundleContainers), t, 1+rng.IntN(3))
		case k < 65:
			r := Pick(rng, NameRoles)
			if single {
				r = Pick(rng, []string{"definition", "property", "sharedParam", "sharedResponse", "pathTemplate", "unusedDefinition"})
			}
			b.NameFeature(Pick(rng, NameClasses), r)
		case k < 75:
			c := Pick(rng, CollisionKinds)
			if single {
				c = Pick(rng, []string{"generatedName", "paramsBodyTaken", "caseTwinsInline", "prefixNames", "anonPointerNameTaken", "anonPointerSymbolsKey"})
				b.Collision(c)
			} else if Chance(rng, 60) {
				ws := collisionWhereSets()
				b.CollisionX(Pick(rng, CollisionRels), Pick(rng, CollisionSchemaKinds), ws[rng.IntN(len(ws))], Chance(rng, 50))
			} else {
				b.Collision(c)
			}
		case k < 88:
			r := Pick(rng, NonSchemaRefKinds)
			if single {
				r = Pick(rng, NonSchemaRefKinds[:5])
			}
			b.NonSchemaRef(r)
		default:
			b.UnusedChain(1+rng.IntN(4), Pick(rng, NameClasses), Chance(rng, 30))
		}
	}
	return b
}

// ---- collision matrix: name relation x imported schema kind x where the referrers are ----

var CollisionRels = []string{"exact", "case", "threeWay", "capitalised"}
var CollisionSchemaKinds = []string{"object", "prim", "array", "map", "enum"}
var CollisionReferrers = []string{"defAlias", "defProperty", "defItems", "defAllOf", "defAddProps", "opParam", "codeResponse", "defaultResponse", "sharedParam", "sharedResponse", "respItems", "respProperty"}

func (b *Bundle) refFreeSchema(kind string) jx.Obj {
	switch kind {
	case "prim":
		return jx.Obj{"type": "string", "format": "date", "description": b.lbl("cprim")}
	case "array":
		return jx.Obj{"type": "array", "description": b.lbl("carr"), "items": jx.Obj{"type": "integer"}}
	case "map":
		return jx.Obj{"type": "object", "description": b.lbl("cmap"), "additionalProperties": jx.Obj{"type": "string"}}
	case "enum":
		return jx.Obj{"type": "string", "description": b.lbl("cenum"), "enum": jx.Arr{"a", "b"}}
	}
	return b.Obj()
}

func (b *Bundle) referFrom(where, ref string, used bool) {
	r := jx.Obj{"$ref": ref}
	useDef := func(name string) {
		if used {
			op := b.Op(b.newPath(), Pick(b.rng, MethodsAll), Chance(b.rng, 70))
			jx.AsObj(op["responses"])["200"] = jx.Obj{"description": b.lbl("u"), "schema": jx.Obj{"$ref": "#/definitions/" + jx.EscTok(name)}}
		}
	}
	switch where {
	case "defAlias":
		n := b.lbl("alias")
		b.Def(n, r)
		useDef(n)
	case "defProperty":
		n := b.lbl("holder")
		b.Def(n, jx.Obj{"type": "object", "description": b.lbl("hd"), "properties": jx.Obj{"inner": r, "other": jx.Obj{"type": "string"}}})
		useDef(n)
	case "defItems":
		n := b.lbl("arrHolder")
		b.Def(n, jx.Obj{"type": "array", "description": b.lbl("hd"), "items": r})
		useDef(n)
	case "defAllOf":
		n := b.lbl("allHolder")
		b.Def(n, jx.Obj{"description": b.lbl("hd"), "allOf": jx.Arr{b.Obj(), r}})
		useDef(n)
	case "defAddProps":
		n := b.lbl("mapHolder")
		b.Def(n, jx.Obj{"type": "object", "description": b.lbl("hd"), "additionalProperties": r})
		useDef(n)
	case "defPropertyViaPointer", "defItemsViaPointer":
		// the referrer is a direct sub-schema of a root definition, and another definition points to that sub-schema
		// with an anonymous pointer (the pointer is replaced by the $ref it finds there)
		n := b.lbl("ptdHolder")
		sub := "/properties/content"
		if where == "defItemsViaPointer" {
			b.Def(n, jx.Obj{"type": "array", "description": b.lbl("hd"), "items": r})
			sub = "/items"
		} else {
			b.Def(n, jx.Obj{"type": "object", "description": b.lbl("hd"), "properties": jx.Obj{"content": r, "other": jx.Obj{"type": "string"}}})
		}
		useDef(n)
		u := b.lbl("ptrUser")
		b.Def(u, jx.Obj{"type": "object", "description": b.lbl("pu"), "properties": jx.Obj{"what": jx.Obj{"$ref": "#/definitions/" + n + sub}}})
		if used || Chance(b.rng, 50) {
			op := b.Op(b.newPath(), Pick(b.rng, MethodsAll), true)
			jx.AsObj(op["responses"])["200"] = jx.Obj{"description": b.lbl("u"), "schema": jx.Obj{"$ref": "#/definitions/" + u}}
		}
		b.AnonPtr = true
	case "respItems":
		b.Place("codeResponse", b.Hold("items", r, 1, ""), "")
	case "respProperty":
		b.Place("codeResponse", b.Hold("property", r, 1, ""), "")
	default:
		b.Place(where, r, "")
	}
}

// CollisionX plants: a root definition N, an imported $ref-free definition whose name relates to N as `rel`,
// of the given schema kind, referred to from each place of `where` (in that order).
func (b *Bundle) CollisionX(rel, kind string, where []string, aliasUsed bool) {
	b.Tag("collisionx:" + rel)
	b.Tag("cell:collisionx/" + rel + "/" + kind + "/" + strings.Join(where, "+"))
	k := strconv.Itoa(b.id())
	local := "thing" + k
	remote := local
	switch rel {
	case "case":
		remote = "Thing" + k
	case "capitalised":
		// same spelling on both sides, but not the one name mangling yields ("Thing1" is mangled to "thing1")
		local, remote = "Thing"+k, "Thing"+k
	}
	b.Def(local, b.refFreeSchema(Pick(b.rng, CollisionSchemaKinds)))
	if Chance(b.rng, 70) {
		op := b.Op(b.newPath(), Pick(b.rng, MethodsAll), true)
		jx.AsObj(op["responses"])["200"] = jx.Obj{"description": b.lbl("loc"), "schema": jx.Obj{"$ref": "#/definitions/" + local}}
	}
	b.AuxDef("sub/a.json", remote, b.refFreeSchema(kind))
	ref := "sub/a.json#/definitions/" + remote
	for _, w := range where {
		if w == "remoteWrapper" {
			// another definition of the same auxiliary document refers to the colliding one with a local $ref:
			// the same remote definition is met again in a later import pass
			wr := "wrapper" + k
			b.AuxDef("sub/a.json", wr, jx.Obj{"type": "object", "description": b.lbl("rw"), "properties": jx.Obj{"l": jx.Obj{"$ref": "#/definitions/" + remote}}})
			op := b.Op(b.newPath(), Pick(b.rng, MethodsAll), true)
			jx.AsObj(op["responses"])["200"] = jx.Obj{"description": b.lbl("rw"), "schema": jx.Obj{"$ref": "sub/a.json#/definitions/" + wr}}
			continue
		}
		if w == "remoteCyclicHolder" {
			// the referrers sit inside a self-recursive definition of the same auxiliary document (imported as a whole)
			node := "node" + k
			b.AuxDef("sub/a.json", node, jx.Obj{"type": "object", "description": b.lbl("rch"), "properties": jx.Obj{
				"next":  jx.Obj{"$ref": "#/definitions/" + node},
				"first": jx.Obj{"$ref": "#/definitions/" + remote},
				"more":  jx.Obj{"type": "array", "items": jx.Obj{"$ref": "#/definitions/" + remote}}}})
			op := b.Op(b.newPath(), Pick(b.rng, MethodsAll), true)
			jx.AsObj(op["responses"])["200"] = jx.Obj{"description": b.lbl("rch"), "schema": jx.Obj{"$ref": "sub/a.json#/definitions/" + node}}
			b.Tag("cycle")
			continue
		}
		b.referFrom(w, ref, aliasUsed)
	}
	if rel == "threeWay" {
		third := "THING" + k
		b.AuxDef("other/c.json", third, b.refFreeSchema(kind))
		for _, w := range where {
			if w != "remoteCyclicHolder" && w != "remoteWrapper" {
				b.referFrom(w, "other/c.json#/definitions/"+third, aliasUsed)
			}
		}
	}
	b.Tag("multi-doc")
}

func collisionWhereSets() [][]string {
	var out [][]string
	for _, w := range CollisionReferrers {
		out = append(out, []string{w})
	}
	out = append(out, [][]string{
		{"defProperty", "codeResponse"}, {"defAlias", "defProperty"}, {"defAlias", "codeResponse"}, {"defItems", "opParam"},
		{"defAllOf", "defaultResponse"}, {"defProperty", "defProperty"}, {"codeResponse", "opParam"}, {"defAddProps", "respItems"},
		{"defAlias", "defItems", "codeResponse"}, {"defProperty", "respProperty", "sharedResponse"},
		{"remoteCyclicHolder"}, {"remoteCyclicHolder", "codeResponse"}, {"defProperty", "remoteCyclicHolder"},
		{"codeResponse", "remoteWrapper"}, {"remoteWrapper", "defProperty"}, {"remoteWrapper"},
		// two referrers of the same kind: keys of equal depth that differ only in the holder's name (ties in the orderings)
		{"defAllOf", "defAllOf"}, {"defItems", "defItems"}, {"defAddProps", "defAddProps"}, {"opParam", "opParam"},
		{"codeResponse", "codeResponse"}, {"respItems", "respItems"}, {"defAllOf", "defAllOf", "defAllOf"}, {"defAlias", "defAlias"},
		// the referrer is also the target of an anonymous pointer
		{"defPropertyViaPointer"}, {"defItemsViaPointer"}, {"defPropertyViaPointer", "codeResponse"}, {"defProperty", "defPropertyViaPointer"},
	}...)
	return out
}
