package gen

import (
	"fmt"
	"math/rand/v2"
	"sort"
	"strconv"
	"strings"

	"verif/harness/jx"
)

// Bundle is a root Swagger document plus auxiliary documents (paths relative to the root's directory).
type Bundle struct {
	Root       jx.Obj
	Aux        map[string]jx.Obj
	Tags       map[string]bool
	AnonPtr    bool // uses an anonymous pointer (not in W for Expand)
	AnonShared bool // anonymous pointer into a shared parameter/response (not in W with RemoveUnused)
	Variant    int  // >= 0: selects the sub-variant of a feature deterministically (systematic corpus); < 0: drawn
	n          int
	rng        *rand.Rand
	hostile    bool
}

func NewBundle(rng *rand.Rand) *Bundle {
	return &Bundle{
		Root: jx.Obj{"swagger": "2.0", "info": jx.Obj{"title": "bundle", "version": "1"}, "paths": jx.Obj{}},
		Aux:  map[string]jx.Obj{}, Tags: map[string]bool{}, rng: rng, Variant: -1,
	}
}

func (b *Bundle) Tag(t string) { b.Tags[t] = true }

func (b *Bundle) TagList() []string {
	var l []string
	for t := range b.Tags {
		l = append(l, t)
	}
	sort.Strings(l)
	return l
}

func (b *Bundle) id() int { b.n++; return b.n }

func (b *Bundle) lbl(p string) string { return p + strconv.Itoa(b.id()) }

// Opts lists the option sets this bundle is in W for.
func (b *Bundle) Opts() []string {
	var out []string
	for _, mode := range []string{"min", "full", "expand"} {
		if mode == "expand" && b.AnonPtr {
			continue
		}
		for _, ru := range []bool{false, true} {
			if ru && b.AnonShared {
				continue
			}
			o := mode
			if ru {
				o += "+ru"
			}
			out = append(out, o)
			if len(b.Aux) == 0 && mode != "expand" {
				out = append(out, o+"+keep")
			}
			if len(b.Aux) == 0 && (ru == (mode == "full")) {
				// a single document needs no base path: min+nobase, full+ru+nobase, expand+nobase
				out = append(out, o+"+nobase")
			}
		}
	}
	return out
}

func (b *Bundle) section(doc jx.Obj, name string) jx.Obj {
	s := jx.AsObj(doc[name])
	if s == nil {
		s = jx.Obj{}
		doc[name] = s
	}
	return s
}

func (b *Bundle) Def(name string, s jx.Obj) string {
	b.section(b.Root, "definitions")[name] = s
	return "#/definitions/" + jx.EscTok(name)
}

func (b *Bundle) aux(file string) jx.Obj {
	d, ok := b.Aux[file]
	if !ok {
		d = jx.Obj{"swagger": "2.0", "info": jx.Obj{"title": "aux " + file, "version": "1"}, "paths": jx.Obj{}}
		b.Aux[file] = d
	}
	return d
}

func (b *Bundle) AuxDef(file, name string, s jx.Obj) {
	b.section(b.aux(file), "definitions")[name] = s
}

// Obj is a small object schema with a unique label.
func (b *Bundle) Obj() jx.Obj {
	o := jx.Obj{"type": "object", "description": b.lbl("obj"), "properties": jx.Obj{"id": jx.Obj{"type": "integer"}}}
	// labels that must survive cloning, moving and renaming untouched
	for i := b.rng.IntN(3); i > 0; i-- {
		n := float64(b.id())
		switch b.rng.IntN(9) {
		case 0:
			o["required"] = jx.Arr{"id"}
		case 1:
			o["x-vendor"] = jx.Obj{"k": n, "list": jx.Arr{"a", n}}
		case 2:
			o["example"] = jx.Obj{"id": n}
		case 3:
			o["title"] = "title" + strconv.Itoa(int(n))
		case 4:
			o["maxProperties"] = n
		case 5:
			o["additionalProperties"] = false
		case 6:
			o["discriminator"] = "id"
			o["required"] = jx.Arr{"id"}
		case 7:
			o["externalDocs"] = jx.Obj{"url": "http://docs/" + strconv.Itoa(int(n))}
		case 8:
			jx.AsObj(o["properties"])["tags"] = jx.Obj{"type": "array", "items": jx.Obj{"type": "string", "enum": jx.Arr{"x", "y"}}, "uniqueItems": true}
		}
	}
	return o
}

func (b *Bundle) Prim() jx.Obj {
	return jx.Obj{"type": "string", "description": b.lbl("str")}
}

// Op returns (creating if needed) the operation method on path.
func (b *Bundle) Op(path, method string, withID bool) jx.Obj {
	paths := jx.AsObj(b.Root["paths"])
	pi := jx.AsObj(paths[path])
	if pi == nil {
		pi = jx.Obj{}
		paths[path] = pi
	}
	op := jx.AsObj(pi[method])
	if op == nil {
		op = jx.Obj{"responses": jx.Obj{"204": jx.Obj{"description": "no content"}}}
		if withID {
			op["operationId"] = b.lbl("op")
		}
		pi[method] = op
	}
	return op
}

func (b *Bundle) newPath() string {
	p := "/r" + strconv.Itoa(b.id())
	if Chance(b.rng, 40) {
		p += "/{id}"
	}
	if b.hostile && Chance(b.rng, 40) {
		p += "/" + Name(b.rng, Pick(b.rng, []string{"space", "unicode", "tilde", "bracket", "brace", "qmark", "hash"}), b.id())
	}
	return p
}

var BundleContainers = []string{"definition", "opParam", "pathParam", "defaultResponse", "codeResponse", "sharedParam", "sharedResponse"}

// Place puts schema s as the root schema of a fresh container of the given kind; returns the pointer of that schema in the root.
func (b *Bundle) Place(container string, s jx.Obj, name string) string {
	method := Pick(b.rng, MethodsAll)
	switch container {
	case "definition":
		if name == "" {
			name = b.lbl("Holder")
		}
		b.Def(name, s)
		// keep the definition in use (RemoveUnused would otherwise legitimately drop it)
		op := b.Op(b.newPath(), method, Chance(b.rng, 70))
		jx.AsObj(op["responses"])["200"] = jx.Obj{"description": "uses " + name, "schema": jx.Obj{"$ref": "#/definitions/" + jx.EscTok(name)}}
		return "/definitions/" + jx.EscTok(name)
	case "opParam":
		p := b.newPath()
		op := b.Op(p, method, Chance(b.rng, 70))
		op["parameters"] = append(jx.AsArr(op["parameters"]), jx.Obj{"name": "body", "in": "body", "schema": s})
		return "/paths/" + jx.EscTok(p) + "/" + method + "/parameters/" + strconv.Itoa(len(jx.AsArr(op["parameters"]))-1) + "/schema"
	case "pathParam":
		p := b.newPath()
		b.Op(p, method, Chance(b.rng, 70))
		// a path-level parameter is shared by all the operations of the path: often more than one
		for i := b.rng.IntN(3); i > 0; i-- {
			b.Op(p, Pick(b.rng, MethodsAll), Chance(b.rng, 70))
		}
		pi := jx.AsObj(jx.AsObj(b.Root["paths"])[p])
		pi["parameters"] = append(jx.AsArr(pi["parameters"]), jx.Obj{"name": "body", "in": "body", "schema": s})
		return "/paths/" + jx.EscTok(p) + "/parameters/0/schema"
	case "defaultResponse", "codeResponse":
		p := b.newPath()
		op := b.Op(p, method, Chance(b.rng, 70))
		k := "default"
		if container == "codeResponse" {
			// registered and unregistered status codes alike (299, 420, 599 have no reason phrase in net/http)
			k = Pick(b.rng, []string{"200", "201", "404", "299", "420", "599"})
		}
		jx.AsObj(op["responses"])[k] = jx.Obj{"description": b.lbl("resp"), "schema": s}
		return "/paths/" + jx.EscTok(p) + "/" + method + "/responses/" + k + "/schema"
	case "sharedParam":
		if name == "" {
			name = b.lbl("sharedParam")
		}
		b.section(b.Root, "parameters")[name] = jx.Obj{"name": "body", "in": "body", "schema": s}
		op := b.Op(b.newPath(), method, Chance(b.rng, 70))
		op["parameters"] = append(jx.AsArr(op["parameters"]), jx.Obj{"$ref": "#/parameters/" + jx.EscTok(name)})
		return "/parameters/" + jx.EscTok(name) + "/schema"
	case "sharedResponse":
		if name == "" {
			name = b.lbl("sharedResp")
		}
		b.section(b.Root, "responses")[name] = jx.Obj{"description": b.lbl("shared"), "schema": s}
		op := b.Op(b.newPath(), method, Chance(b.rng, 70))
		jx.AsObj(op["responses"])["200"] = jx.Obj{"$ref": "#/responses/" + jx.EscTok(name)}
		return "/responses/" + jx.EscTok(name) + "/schema"
	}
	panic("unknown container " + container)
}

var BundleHolders = []string{"schema", "property", "items", "tuple", "additionalProperties", "additionalItems", "allOf"}
var ExtendedHolders = []string{"anyOf", "oneOf", "not", "patternProperties", "schemaDefinitions", "additionalItemsAlone", "additionalItemsSingleItems"}

// Hold wraps leaf (usually a $ref node) under `depth` levels of the holder kind.
func (b *Bundle) Hold(holder string, leaf jx.Obj, depth int, key string) jx.Obj {
	if holder == "schema" {
		return leaf
	}
	if key == "" {
		key = "held"
	}
	cur := leaf
	for i := 0; i < depth; i++ {
		switch holder {
		case "property":
			cur = jx.Obj{"type": "object", "description": b.lbl("hp"), "properties": jx.Obj{key: cur, "sib": jx.Obj{"type": "string"}}}
		case "items":
			cur = jx.Obj{"type": "array", "description": b.lbl("hi"), "items": cur}
		case "tuple":
			cur = jx.Obj{"type": "array", "description": b.lbl("ht"), "items": jx.Arr{jx.Obj{"type": "string"}, cur}}
		case "additionalProperties":
			cur = jx.Obj{"type": "object", "description": b.lbl("hap"), "additionalProperties": cur}
		case "additionalItems":
			cur = jx.Obj{"type": "array", "description": b.lbl("hai"), "items": jx.Arr{jx.Obj{"type": "string"}}, "additionalItems": cur}
		case "additionalItemsSingleItems":
			// additionalItems next to items given as a single schema
			cur = jx.Obj{"type": "array", "description": b.lbl("hais"), "items": jx.Obj{"type": "string"}, "additionalItems": cur}
		case "additionalItemsAlone":
			cur = jx.Obj{"type": "array", "description": b.lbl("haia"), "additionalItems": cur}
		case "allOf":
			cur = jx.Obj{"description": b.lbl("hall"), "allOf": jx.Arr{jx.Obj{"type": "object", "description": b.lbl("m"), "properties": jx.Obj{"m": jx.Obj{"type": "string"}}}, cur}}
		case "anyOf", "oneOf":
			cur = jx.Obj{"description": b.lbl("hx"), holder: jx.Arr{jx.Obj{"type": "string"}, cur}}
		case "not":
			cur = jx.Obj{"description": b.lbl("hn"), "not": cur}
		case "patternProperties":
			// with a complex sibling of different content under another pattern
			cur = jx.Obj{"type": "object", "description": b.lbl("hpp"), "patternProperties": jx.Obj{"^" + key: cur, "^sib_": b.Obj(), "^zib_": jx.Obj{"type": "array", "description": b.lbl("zs"), "items": b.Obj()}}}
		case "schemaDefinitions":
			cur = jx.Obj{"type": "object", "description": b.lbl("hsd"), "definitions": jx.Obj{key: cur, "sibDef": b.Obj()}, "properties": jx.Obj{"p": jx.Obj{"type": "string"}}}
		default:
			panic("unknown holder " + holder)
		}
	}
	return cur
}

// "sub/root.json" has the same base name as the root document
var auxFiles = []string{"sub/a.json", "sub/deep/b.json", "other/c.json", "sub/root.json"}

// relRef renders a reference from file `from` ("" = root) to file `to`.
func relRef(from, to string) string {
	if from == "" {
		return to
	}
	fd := strings.Split(from, "/")
	td := strings.Split(to, "/")
	fd = fd[:len(fd)-1]
	i := 0
	for i < len(fd) && i < len(td)-1 && fd[i] == td[i] {
		i++
	}
	var parts []string
	for j := i; j < len(fd); j++ {
		parts = append(parts, "..")
	}
	parts = append(parts, td[i:]...)
	return strings.Join(parts, "/")
}

var BundleTargets = []string{"localDef", "remoteDef", "remoteChain", "remoteRecursive", "remoteCrossFileCycle", "remoteSiblingCircular", "remoteSameNameDocs", "remoteSameNameDocsRecursive", "selfRecursive", "mutualRecursive", "arrayOfSelf", "mapOfSelf",
	"anonProperty", "anonItems", "anonAllOf", "anonAdditionalProperties", "anonSharedParam", "anonSharedResponse",
	"inlineObject", "inlineTuple", "inlineAllOf", "inlineAllOfMap", "inlineObjectMap", "inlineTupleExtra"}

// InlineLeaf returns, for the "inline*" target kinds, the complex schema planted in place of a $ref (nil otherwise).
func (b *Bundle) InlineLeaf(kind string) jx.Obj {
	switch kind {
	case "inlineObject":
		return b.Obj()
	case "inlineTuple":
		return jx.Obj{"type": "array", "description": b.lbl("itup"), "items": jx.Arr{jx.Obj{"type": "string"}, b.Obj()}}
	case "inlineAllOf":
		return jx.Obj{"description": b.lbl("iall"), "allOf": jx.Arr{b.Obj(), jx.Obj{"$ref": b.Target("localDef", "")}}}
	case "inlineAllOfMap":
		// a composition that also allows additional properties and has no property of its own
		ap := any(true)
		if Chance(b.rng, 60) {
			ap = jx.Obj{"type": "string"}
		}
		return jx.Obj{"description": b.lbl("iallm"), "allOf": jx.Arr{jx.Obj{"$ref": b.Target("localDef", "")}}, "additionalProperties": ap}
	case "inlineObjectMap":
		o := b.Obj()
		o["additionalProperties"] = jx.Obj{"type": "integer"}
		return o
	case "inlineTupleExtra":
		return jx.Obj{"type": "array", "description": b.lbl("itupx"), "items": jx.Arr{jx.Obj{"type": "string"}, b.Obj()}, "additionalItems": jx.Obj{"type": "integer"}}
	}
	return nil
}

// Target creates the target of the given kind and returns the $ref string (as seen from the root) denoting it.
// name, when non-empty, is used for the definition that is (or hosts) the target.
func (b *Bundle) Target(kind, name string) string {
	nm := func(def string) string {
		if name != "" {
			return name
		}
		return b.lbl(def)
	}
	switch kind {
	case "localDef":
		return b.Def(nm("Local"), b.Obj())
	case "remoteDef":
		n := nm("Remote")
		f := Pick(b.rng, auxFiles)
		b.AuxDef(f, n, b.Obj())
		pre := ""
		if Chance(b.rng, 30) {
			pre = "./"
		}
		return pre + f + "#/definitions/" + jx.EscTok(n)
	case "remoteChain":
		// root -> sub/a.json#A -> deep/b.json#B -> ../a.json#C (aux documents may refer to each other)
		a, bb, c := nm("ChainA"), b.lbl("ChainB"), b.lbl("ChainC")
		b.AuxDef("sub/a.json", a, jx.Obj{"type": "object", "description": b.lbl("ca"), "properties": jx.Obj{"next": jx.Obj{"$ref": "deep/b.json#/definitions/" + jx.EscTok(bb)}}})
		b.AuxDef("sub/deep/b.json", bb, jx.Obj{"type": "object", "description": b.lbl("cb"), "properties": jx.Obj{"back": jx.Obj{"$ref": "../a.json#/definitions/" + jx.EscTok(c)}, "local": jx.Obj{"$ref": "#/definitions/" + jx.EscTok(bb) + "Leaf"}}})
		b.AuxDef("sub/deep/b.json", bb+"Leaf", b.Obj())
		b.AuxDef("sub/a.json", c, b.Obj())
		return "sub/a.json#/definitions/" + jx.EscTok(a)
	case "remoteRecursive":
		a, o := nm("RemRec"), b.lbl("RemOther")
		f := Pick(b.rng, auxFiles)
		b.AuxDef(f, a, jx.Obj{"type": "object", "description": b.lbl("rr"), "properties": jx.Obj{"self": jx.Obj{"$ref": "#/definitions/" + jx.EscTok(a)}, "other": jx.Obj{"$ref": "#/definitions/" + jx.EscTok(o)}}})
		b.AuxDef(f, o, jx.Obj{"type": "object", "description": b.lbl("ro"), "properties": jx.Obj{"back": jx.Obj{"$ref": "#/definitions/" + jx.EscTok(a)}}})
		b.Tag("cycle")
		return f + "#/definitions/" + jx.EscTok(a)
	case "remoteCrossFileCycle":
		// a cycle through two auxiliary documents, the same definition being reached under two spellings:
		// from the root as sub/a.json#/..., from the sibling document as ../a.json#/...
		x, y := nm("CrossX"), b.lbl("CrossY")
		b.AuxDef("sub/a.json", x, jx.Obj{"type": "object", "description": b.lbl("cx"), "properties": jx.Obj{"y": jx.Obj{"$ref": "deep/b.json#/definitions/" + jx.EscTok(y)}}})
		b.AuxDef("sub/deep/b.json", y, jx.Obj{"type": "object", "description": b.lbl("cy"), "properties": jx.Obj{"x": jx.Obj{"$ref": "../a.json#/definitions/" + jx.EscTok(x)}}})
		b.Tag("cycle")
		return "sub/a.json#/definitions/" + jx.EscTok(x)
	case "remoteSameNameDocs":
		// two auxiliary documents with the same file name in a directory and in its parent, each with a (different,
		// $ref-free) definition of the same name: "../defs.json#/..." and "defs.json#/..." must not be confused
		th, tag := nm("Thing"), b.lbl("Tag")
		b.AuxDef("sub/deep/aux1.json", th, jx.Obj{"type": "object", "description": b.lbl("snd"), "properties": jx.Obj{
			"far":  jx.Obj{"$ref": "../defs.json#/definitions/" + jx.EscTok(tag)},
			"near": jx.Obj{"$ref": "defs.json#/definitions/" + jx.EscTok(tag)}}})
		b.AuxDef("sub/defs.json", tag, jx.Obj{"type": "string", "maxLength": float64(8), "description": b.lbl("far")})
		b.AuxDef("sub/deep/defs.json", tag, jx.Obj{"type": "integer", "format": "int32", "description": b.lbl("near")})
		return "sub/deep/aux1.json#/definitions/" + jx.EscTok(th)
	case "remoteSameNameDocsRecursive":
		// the same, with a document next to the root and one in a sub-directory, the referrer being a recursive
		// definition of the sub-directory (what Expand leaves behind is imported raw, its relative refs rebased then)
		th, tag := nm("Node"), b.lbl("Tag")
		b.AuxDef("cmn.json", tag, jx.Obj{"type": "string", "maxLength": float64(8), "description": b.lbl("top")})
		b.AuxDef("sub/cmn.json", tag, jx.Obj{"type": "integer", "format": "int32", "description": b.lbl("sub")})
		b.AuxDef("sub/mid.json", th, jx.Obj{"type": "object", "description": b.lbl("mid"), "properties": jx.Obj{
			"next": jx.Obj{"$ref": "#/definitions/" + jx.EscTok(th)},
			"tag":  jx.Obj{"$ref": "cmn.json#/definitions/" + jx.EscTok(tag)}}})
		op := b.Op(b.newPath(), "get", true)
		jx.AsObj(op["responses"])["200"] = jx.Obj{"description": b.lbl("top"), "schema": jx.Obj{"$ref": "cmn.json#/definitions/" + jx.EscTok(tag)}}
		b.Tag("cycle")
		return "sub/mid.json#/definitions/" + jx.EscTok(th)
	case "remoteSiblingCircular":
		// a self-recursive definition of sub/a.json, reached from the root as sub/a.json#/... and from its sibling sub/s.json as a.json#/...
		x, sname := nm("SibX"), b.lbl("SibS")
		b.AuxDef("sub/a.json", x, jx.Obj{"type": "object", "description": b.lbl("sx"), "properties": jx.Obj{"again": jx.Obj{"$ref": "#/definitions/" + jx.EscTok(x)}, "v": jx.Obj{"type": "string"}}})
		b.AuxDef("sub/s.json", sname, jx.Obj{"type": "object", "description": b.lbl("ss"), "properties": jx.Obj{"x": jx.Obj{"$ref": "a.json#/definitions/" + jx.EscTok(x)}}})
		b.Tag("cycle")
		op := b.Op(b.newPath(), "get", true)
		jx.AsObj(op["responses"])["200"] = jx.Obj{"description": b.lbl("sib"), "schema": jx.Obj{"$ref": "sub/s.json#/definitions/" + jx.EscTok(sname)}}
		return "sub/a.json#/definitions/" + jx.EscTok(x)
	case "selfRecursive":
		n := nm("SelfRec")
		b.Tag("cycle")
		return b.Def(n, jx.Obj{"type": "object", "description": b.lbl("sr"), "properties": jx.Obj{"next": jx.Obj{"$ref": "#/definitions/" + jx.EscTok(n)}, "v": jx.Obj{"type": "string"}}})
	case "mutualRecursive":
		a, o := nm("MutA"), b.lbl("MutB")
		b.Tag("cycle")
		b.Def(o, jx.Obj{"type": "object", "description": b.lbl("mb"), "properties": jx.Obj{"a": jx.Obj{"$ref": "#/definitions/" + jx.EscTok(a)}}})
		return b.Def(a, jx.Obj{"type": "object", "description": b.lbl("ma"), "properties": jx.Obj{"b": jx.Obj{"$ref": "#/definitions/" + jx.EscTok(o)}}})
	case "arrayOfSelf":
		n := nm("ArrSelf")
		b.Tag("cycle")
		return b.Def(n, jx.Obj{"type": "array", "description": b.lbl("as"), "items": jx.Obj{"$ref": "#/definitions/" + jx.EscTok(n)}})
	case "mapOfSelf":
		n := nm("MapSelf")
		b.Tag("cycle")
		return b.Def(n, jx.Obj{"type": "object", "description": b.lbl("ms"), "additionalProperties": jx.Obj{"$ref": "#/definitions/" + jx.EscTok(n)}})
	case "anonProperty", "anonItems", "anonAllOf", "anonAdditionalProperties":
		n := nm("AnonHost")
		b.AnonPtr = true
		sub := b.Obj()
		if Chance(b.rng, 35) {
			sub = b.Prim()
		}
		var host jx.Obj
		var tail string
		switch kind {
		case "anonProperty":
			pk := "p"
			if b.hostile {
				pk = AnyName(b.rng, true, b.id())
			}
			host = jx.Obj{"type": "object", "description": b.lbl("ah"), "properties": jx.Obj{pk: sub, "q": jx.Obj{"type": "string"}}}
			tail = "/properties/" + jx.EscTok(pk)
		case "anonItems":
			host = jx.Obj{"type": "array", "description": b.lbl("ah"), "items": sub}
			tail = "/items"
		case "anonAllOf":
			host = jx.Obj{"description": b.lbl("ah"), "allOf": jx.Arr{b.Obj(), sub}}
			tail = "/allOf/1"
		default:
			host = jx.Obj{"type": "object", "description": b.lbl("ah"), "additionalProperties": sub}
			tail = "/additionalProperties"
		}
		b.Def(n, host)
		if Chance(b.rng, 60) {
			// keep the host in use
			op := b.Op(b.newPath(), "get", true)
			jx.AsObj(op["responses"])["200"] = jx.Obj{"description": "host", "schema": jx.Obj{"$ref": "#/definitions/" + jx.EscTok(n)}}
		} else {
			// the host is used through the pointer only: once the pointer is resolved, RemoveUnused has to drop it
			b.Tag("host-used-by-pointer-only")
		}
		return "#/definitions/" + jx.EscTok(n) + tail
	case "anonSharedParam":
		b.AnonPtr, b.AnonShared = true, true
		n := nm("anonParam")
		b.section(b.Root, "parameters")[n] = jx.Obj{"name": "body", "in": "body", "schema": b.Obj()}
		return "#/parameters/" + jx.EscTok(n) + "/schema"
	case "anonSharedResponse":
		b.AnonPtr, b.AnonShared = true, true
		n := nm("anonResp")
		b.section(b.Root, "responses")[n] = jx.Obj{"description": b.lbl("ar"), "schema": b.Obj()}
		return "#/responses/" + jx.EscTok(n) + "/schema"
	}
	panic("unknown target " + kind)
}

// Plant combines target, holder and container: the basic feature of W.
func (b *Bundle) Plant(holder, container, target string, depth int) {
	key := ""
	if b.hostile {
		key = AnyName(b.rng, true, b.id())
	}
	name := ""
	if b.hostile && Chance(b.rng, 60) {
		name = AnyName(b.rng, true, b.id())
	}
	leaf := b.InlineLeaf(target)
	if leaf == nil {
		leaf = jx.Obj{"$ref": b.Target(target, name)}
	}
	b.Place(container, b.Hold(holder, leaf, depth, key), "")
	b.Tag("holder:" + holder)
	b.Tag("container:" + container)
	b.Tag("target:" + target)
	b.Tag(fmt.Sprintf("cell:%s/%s/%s", holder, container, target))
	if len(b.Aux) > 0 {
		b.Tag("multi-doc")
	}
}
