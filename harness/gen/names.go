// Package gen holds the seeded generators: names over the hostile alphabet, the schema grammar,
// single Swagger documents (G-doc) and multi-file bundles (G-bundle).
package gen

import (
	"math/rand/v2"
	"strconv"
	"strings"
)

func NewRng(seed uint64, idx int) *rand.Rand {
	return rand.New(rand.NewPCG(seed, uint64(idx)*0x9E3779B97F4A7C15+1))
}

// NameClasses is the alphabet of C01: identifiers, space, unicode, '/', '~', '?', '#', brackets, braces.
// Excluded on purpose: '%', '.', '..', the empty name, '"' and '\'.
var NameClasses = []string{"ident", "space", "unicode", "slash", "tilde", "qmark", "hash", "bracket", "brace", "symbols"}

// symbolsOnly: names without any letter or digit (name mangling reduces them to nothing)
var symbolsOnly = []string{"{}", "[]", "?", "#", "~", "{?}", "[#]", "/", " ", "~/", "{ }", "()"}

var idents = []string{"pet", "owner", "tag", "item", "node", "order", "user", "kind", "leaf", "data", "rec", "val"}

// Name draws a name of the given class; n makes it unique within its namespace.
func Name(rng *rand.Rand, class string, n int) string {
	b := idents[rng.IntN(len(idents))]
	s := strconv.Itoa(n)
	switch class {
	case "symbols":
		return symbolsOnly[n%len(symbolsOnly)] + strings.Repeat("?", n/len(symbolsOnly))
	case "space":
		return b + " " + s
	case "unicode":
		return b + "é" + s + "ß"
	case "slash":
		return b + "/" + s
	case "tilde":
		return b + "~" + s
	case "qmark":
		return b + "?" + s
	case "hash":
		return b + "#" + s
	case "bracket":
		return b + "[" + s + "]"
	case "brace":
		return b + "{" + s + "}"
	}
	return b + s
}

// AnyName draws a class first (identifiers half of the time when hostile, always otherwise).
func AnyName(rng *rand.Rand, hostile bool, n int) string {
	if !hostile || rng.IntN(2) == 0 {
		return Name(rng, "ident", n)
	}
	return Name(rng, NameClasses[1+rng.IntN(len(NameClasses)-1)], n)
}

func Pick[T any](rng *rand.Rand, xs []T) T { return xs[rng.IntN(len(xs))] }

func Chance(rng *rand.Rand, pct int) bool { return rng.IntN(100) < pct }
