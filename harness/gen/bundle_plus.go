package gen

import (
	"math/rand/v2"
	"sort"
	"strconv"
	"strings"

	"verif/harness/jx"
)

// PlusKinds are the features of the wider class W+ (C09 only).
var PlusKinds = []string{"ptrIntoOperation", "ptrNestedInline", "ptrMissingPosition", "ptrInPtrTarget", "ptrCycle", "auxBackRef", "collisionWithRefs",
	"danglingLocalDef", "danglingRemoteFile", "danglingRemoteFragment", "recursiveContainers", "wholeDocSchema", "paramRefToNonParam", "responseRefToNonResponse",
	"ptrToNonSchema", "refWithSiblings", "absoluteSelfRef", "itemsRef", "deepNesting", "pathItemRefDangling", "selfRefDefinition", "ptrToSelf", "sharedRefToRemote", "sharedRefToMissing", "wholeDocPointerNested", "httpRemote", "ptrTailIntoCycle", "collidingRecursiveImports", "percentNames", "refSiblingsCollidingRemote"}

// MustErrorKinds: planted at a position reachable from an operation, Flatten must return an error (ContinueOnError off).
var MustErrorKinds = map[string]bool{"ptrMissingPosition": true, "ptrCycle": true, "ptrTailIntoCycle": true, "danglingRemoteFile": true, "danglingRemoteFragment": true, "sharedRefToMissing": true}

// ResolvablePlusKinds never make a bundle unresolvable: they may be added to bundles used for load-fault enumeration.
var ResolvablePlusKinds = []string{"sharedRefToRemote", "wholeDocSchema", "auxBackRef", "ptrIntoOperation", "ptrNestedInline", "recursiveContainers", "absoluteSelfRef", "httpRemote", "collidingRecursiveImports"}

// useRef makes ref reachable from an operation through the given holder.
func (b *Bundle) useRef(ref string, holder string) {
	op := b.Op(b.newPath(), Pick(b.rng, MethodsAll), Chance(b.rng, 70))
	jx.AsObj(op["responses"])["200"] = jx.Obj{"description": b.lbl("u"), "schema": b.Hold(holder, jx.Obj{"$ref": ref}, 1, "")}
}

// Plus plants one W+ feature. It returns false when the feature makes no sense for this bundle.
func (b *Bundle) Plus(kind string) {
	b.Tag("plus:" + kind)
	b.Tag("cell:plus/" + kind)
	k := strconv.Itoa(b.id())
	holder := Pick(b.rng, BundleHolders)
	switch kind {
	case "ptrIntoOperation":
		p := "/ptrop" + k
		op := b.Op(p, "post", true)
		op["parameters"] = jx.Arr{jx.Obj{"name": "body", "in": "body", "schema": jx.Obj{"type": "object", "description": b.lbl("po"), "properties": jx.Obj{"deep": b.Obj()}}}}
		jx.AsObj(op["responses"])["200"] = jx.Obj{"description": b.lbl("r"), "schema": b.Obj()}
		switch b.rng.IntN(3) {
		case 0:
			b.useRef("#/paths/~1ptrop"+k+"/post/parameters/0/schema", holder)
		case 1:
			b.useRef("#/paths/~1ptrop"+k+"/post/parameters/0/schema/properties/deep", holder)
		default:
			b.useRef("#/paths/~1ptrop"+k+"/post/responses/200/schema", holder)
		}
	case "ptrNestedInline":
		b.Def("Nest"+k, jx.Obj{"type": "object", "description": b.lbl("n"), "properties": jx.Obj{"p": jx.Obj{"type": "object", "description": b.lbl("n"), "properties": jx.Obj{"q": b.Obj(), "r": jx.Obj{"type": "array", "items": b.Obj()}}}}})
		b.useRef("#/definitions/Nest"+k+"/properties/p/properties/"+Pick(b.rng, []string{"q", "r", "r/items"}), holder)
		b.useRef("#/definitions/Nest"+k, "schema")
	case "ptrMissingPosition":
		b.Def("Miss"+k, jx.Obj{"type": "array", "description": b.lbl("m"), "items": jx.Arr{jx.Obj{"type": "string"}, b.Obj()}})
		b.Def("MissO"+k, jx.Obj{"type": "object", "description": b.lbl("m"), "properties": jx.Obj{"a": b.Obj()}})
		b.useRef("#/definitions/Miss"+k, "schema")
		b.useRef("#/definitions/MissO"+k, "schema")
		b.useRef(Pick(b.rng, []string{"#/definitions/Miss" + k + "/additionalItems", "#/definitions/Miss" + k + "/items/7", "#/definitions/MissO" + k + "/properties/nope",
			"#/definitions/MissO" + k + "/additionalProperties", "#/definitions/MissO" + k + "/allOf/0", "#/definitions/MissO" + k + "/items", "#/definitions/MissO" + k + "/not"}), holder)
	case "ptrInPtrTarget":
		b.Def("PP"+k, jx.Obj{"type": "object", "description": b.lbl("pp"), "properties": jx.Obj{
			"a": jx.Obj{"type": "object", "description": b.lbl("pp"), "properties": jx.Obj{"inner": jx.Obj{"$ref": "#/definitions/PP" + k + "/properties/b"}}},
			"b": b.Obj()}})
		b.useRef("#/definitions/PP"+k+"/properties/a", holder)
		b.useRef("#/definitions/PP"+k, "schema")
	case "ptrCycle":
		b.Def("Cy"+k, jx.Obj{"type": "object", "description": b.lbl("cy"), "properties": jx.Obj{
			"x": jx.Obj{"$ref": "#/definitions/Cy" + k + "/properties/y"},
			"y": jx.Obj{"$ref": "#/definitions/Cy" + k + "/properties/x"}}})
		if Chance(b.rng, 50) {
			b.useRef("#/definitions/Cy"+k+"/properties/x", holder)
		} else {
			b.useRef("#/definitions/Cy"+k, "schema")
		}
	case "ptrTailIntoCycle":
		// a chain of pointers with a tail that leads into a cycle it is not part of: p -> (q ->) x -> y -> x
		b.Def("Loop"+k, jx.Obj{"type": "object", "description": b.lbl("lp"), "properties": jx.Obj{
			"x": jx.Obj{"$ref": "#/definitions/Loop" + k + "/properties/y"},
			"y": jx.Obj{"$ref": "#/definitions/Loop" + k + "/properties/x"}}})
		tail := jx.Obj{"p": jx.Obj{"$ref": "#/definitions/Loop" + k + "/properties/x"}}
		entry := "#/definitions/Head" + k + "/properties/p"
		if b.Variant%2 == 1 || (b.Variant < 0 && Chance(b.rng, 50)) {
			tail["q"] = jx.Obj{"$ref": "#/definitions/Head" + k + "/properties/p"}
			entry = "#/definitions/Head" + k + "/properties/q"
		}
		b.Def("Head"+k, jx.Obj{"type": "object", "description": b.lbl("hd"), "properties": tail})
		b.useRef(entry, holder)
		if b.Variant >= 2 {
			b.useRef(entry, "schema")
		}
	case "collidingRecursiveImports":
		// imported definitions that collide with root definitions AND refer to each other through containers only
		// (colliding imports that hold $refs are outside W)
		x, y := "cx"+k, "cy"+k
		b.Def(x, jx.Obj{"type": "string", "description": b.lbl("rx")})
		b.Def(y, jx.Obj{"type": "string", "description": b.lbl("ry")})
		wrap := func(ref string, v int) jx.Obj {
			if v%2 == 0 {
				return jx.Obj{"type": "array", "description": b.lbl("ra"), "items": jx.Obj{"$ref": ref}}
			}
			return jx.Obj{"type": "object", "description": b.lbl("rm"), "additionalProperties": jx.Obj{"$ref": ref}}
		}
		v := b.Variant
		if v < 0 {
			v = b.rng.IntN(4)
		}
		b.AuxDef("sub/a.json", x, wrap("#/definitions/"+y, v))
		b.AuxDef("sub/a.json", y, wrap("#/definitions/"+x, v/2))
		b.useRef("sub/a.json#/definitions/"+x, holder)
		if v >= 2 {
			b.useRef("sub/a.json#/definitions/"+y, "schema")
		}
		b.Tag("cycle")
	case "percentNames":
		// names holding a '%' (outside the alphabet of W): as a stray character, as an invalid and as a valid escape
		pn := []string{"a%b", "x%zz", "p%41q", "100%", "%"}
		v := b.Variant
		if v < 0 {
			v = b.rng.IntN(20)
		}
		n := pn[(b.id()+v)%len(pn)] + k
		switch v % 5 {
		case 0: // definition and property names, inline complex schemas below them
			b.Def(n, jx.Obj{"type": "object", "description": b.lbl("pc"), "properties": jx.Obj{n: b.Obj(), "plain": jx.Obj{"$ref": "#/definitions/" + jx.EscTok(n)}}})
			b.useRef("#/definitions/"+strings.ReplaceAll(jx.EscTok(n), "%", "%25"), holder)
		case 1: // path template and shared parameter / response names
			op := b.Op("/r"+k+"/"+n+"/{id}", Pick(b.rng, MethodsAll), Chance(b.rng, 50))
			op["parameters"] = jx.Arr{jx.Obj{"name": "body", "in": "body", "schema": b.Obj()}}
			jx.AsObj(op["responses"])["200"] = jx.Obj{"description": b.lbl("pc"), "schema": b.Obj()}
			b.section(b.Root, "parameters")[n] = jx.Obj{"name": "body", "in": "body", "schema": b.Obj()}
			b.section(b.Root, "responses")[n] = jx.Obj{"description": b.lbl("pc"), "schema": b.Obj()}
		case 2: // imported definition
			f := Pick(b.rng, auxFiles)
			b.AuxDef(f, n, b.Obj())
			b.useRef(f+"#/definitions/"+strings.ReplaceAll(jx.EscTok(n), "%", "%25"), holder)
		case 3: // only '%' that start a VALID escape: they survive the first parse and are decoded on the way to the next one
			op2 := b.Op("/v"+k+"/x%25y/{id}", "get", false)
			op2["parameters"] = jx.Arr{jx.Obj{"name": "body", "in": "body", "schema": b.Obj()}}
			jx.AsObj(op2["responses"])["200"] = jx.Obj{"description": b.lbl("pc"), "schema": b.Obj()}
			b.Def("v%25"+k, jx.Obj{"type": "object", "description": b.lbl("pc"), "properties": jx.Obj{"q%41": b.Obj()}})
			b.useRef("#/definitions/v%2525"+k, holder)
		default: // anonymous pointer below a '%' name, referred to raw (an invalid $ref for most of the names)
			b.Def("PcHost"+k, jx.Obj{"type": "object", "description": b.lbl("pc"), "properties": jx.Obj{n: b.Obj()}})
			b.useRef("#/definitions/PcHost"+k+"/properties/"+jx.EscTok(n), holder)
			b.useRef("#/definitions/PcHost"+k, "schema")
		}
	case "refSiblingsCollidingRemote":
		// a $ref to a colliding remote definition next to a sibling keyword that holds a $ref to another colliding one:
		// merging the first one back drops the sibling, whose key is still queued
		x, y := "sx"+k, "sy"+k
		b.Def(x, jx.Obj{"type": "string", "description": b.lbl("rx")})
		b.Def(y, jx.Obj{"type": "string", "description": b.lbl("ry")})
		shapes := []jx.Obj{
			{"type": "array", "description": b.lbl("tu"), "items": jx.Arr{jx.Obj{"type": "string"}, jx.Obj{"type": "integer"}}},
			{"type": "object", "description": b.lbl("mp"), "additionalProperties": true},
			b.Obj(),
			{"type": "array", "description": b.lbl("ar"), "items": jx.Obj{"type": "string"}},
		}
		v := b.Variant
		if v < 0 {
			v = b.rng.IntN(8)
		}
		b.AuxDef("sub/a.json", x, shapes[v%4])
		b.AuxDef("sub/a.json", y, b.Obj())
		sib := []string{"items", "additionalProperties", "items", "additionalProperties"}[v%4]
		if v >= 4 {
			sib = "not"
		}
		inner := jx.Obj{"$ref": "sub/a.json#/definitions/" + x, sib: jx.Obj{"$ref": "sub/a.json#/definitions/" + y}}
		b.Def("sibA"+k, b.Hold(Pick(b.rng, []string{"additionalProperties", "items", "property", "allOf"}), inner, 1, ""))
		b.useRef("#/definitions/sibA"+k, "schema")
		if Chance(b.rng, 50) {
			b.useRef("sub/a.json#/definitions/"+y, holder)
		}
	case "auxBackRef":
		b.Def("Back"+k, b.Obj())
		f := Pick(b.rng, auxFiles)
		b.AuxDef(f, "Fwd"+k, jx.Obj{"type": "object", "description": b.lbl("bk"), "properties": jx.Obj{"home": jx.Obj{"$ref": relRef(f, "root.json") + "#/definitions/Back" + k}}})
		b.useRef(f+"#/definitions/Fwd"+k, holder)
	case "collisionWithRefs":
		b.Def("clash"+k, b.Obj())
		b.useRef("#/definitions/clash"+k, "schema")
		b.AuxDef("sub/a.json", "clash"+k, jx.Obj{"type": "object", "description": b.lbl("cl"), "properties": jx.Obj{"o": jx.Obj{"$ref": "#/definitions/clashDep" + k}, "self": jx.Obj{"$ref": "#/definitions/clash" + k}}})
		b.AuxDef("sub/a.json", "clashDep"+k, b.Obj())
		b.AuxDef("other/c.json", "Clash"+k, jx.Obj{"type": "array", "items": jx.Obj{"$ref": "../sub/a.json#/definitions/clash" + k}})
		b.useRef("sub/a.json#/definitions/clash"+k, holder)
		b.useRef("other/c.json#/definitions/Clash"+k, holder)
	case "danglingLocalDef":
		b.useRef("#/definitions/NoSuchDefinition"+k, holder)
	case "danglingRemoteFile":
		b.useRef("missing/"+k+".json#/definitions/X", holder)
	case "danglingRemoteFragment":
		f := Pick(b.rng, auxFiles)
		b.AuxDef(f, "Exists"+k, b.Obj())
		b.useRef(f+"#/definitions/DoesNotExist"+k, holder)
	case "recursiveContainers":
		b.Def("AM"+k, jx.Obj{"type": "array", "items": jx.Obj{"type": "object", "additionalProperties": jx.Obj{"$ref": "#/definitions/AM" + k}}})
		b.Def("TS"+k, jx.Obj{"type": "array", "items": jx.Arr{jx.Obj{"type": "string"}, jx.Obj{"$ref": "#/definitions/TS" + k}}})
		b.Def("AllS"+k, jx.Obj{"allOf": jx.Arr{jx.Obj{"$ref": "#/definitions/AllS" + k}, b.Obj()}})
		b.AuxDef("sub/a.json", "RA"+k, jx.Obj{"type": "array", "items": jx.Obj{"$ref": "#/definitions/RA" + k}})
		b.AuxDef("sub/a.json", "RM"+k, jx.Obj{"type": "object", "additionalProperties": jx.Obj{"$ref": "deep/b.json#/definitions/RM2" + k}})
		b.AuxDef("sub/deep/b.json", "RM2"+k, jx.Obj{"type": "array", "items": jx.Obj{"$ref": "../a.json#/definitions/RM" + k}})
		// two containers closing two different cycles through each other (multi-typed, or with a side branch)
		b.Def("Ping"+k, jx.Obj{"type": jx.Arr{"object", "array"}, "additionalProperties": jx.Obj{"$ref": "#/definitions/Ping" + k}, "items": jx.Obj{"$ref": "#/definitions/Pong" + k}})
		b.Def("Pong"+k, jx.Obj{"type": jx.Arr{"object", "array"}, "additionalProperties": jx.Obj{"$ref": "#/definitions/Pong" + k}, "items": jx.Obj{"$ref": "#/definitions/Ping" + k}})
		b.Def("Tick"+k, jx.Obj{"type": "object", "anyOf": jx.Arr{jx.Obj{"$ref": "#/definitions/Tock" + k}, jx.Obj{"$ref": "#/definitions/Tick" + k}}, "additionalProperties": jx.Obj{"$ref": "#/definitions/Tock" + k}})
		b.Def("Tock"+k, jx.Obj{"type": "object", "anyOf": jx.Arr{jx.Obj{"$ref": "#/definitions/Tick" + k}, jx.Obj{"$ref": "#/definitions/Tock" + k}}, "additionalProperties": jx.Obj{"$ref": "#/definitions/Tick" + k}})
		op := b.Op(b.newPath(), "get", true)
		jx.AsObj(op["responses"])["200"] = jx.Obj{"description": b.lbl("pp"), "schema": jx.Obj{"type": "array", "items": jx.Obj{"$ref": "#/definitions/Ping" + k}}}
		jx.AsObj(op["responses"])["201"] = jx.Obj{"description": b.lbl("tt"), "schema": jx.Obj{"type": "object", "additionalProperties": jx.Obj{"$ref": "#/definitions/Tick" + k}}}
		for _, r := range []string{"#/definitions/AM" + k, "#/definitions/TS" + k, "#/definitions/AllS" + k, "sub/a.json#/definitions/RA" + k, "sub/a.json#/definitions/RM" + k} {
			if Chance(b.rng, 60) {
				b.useRef(r, holder)
			}
		}
	case "wholeDocSchema":
		b.Aux["sub/whole"+k+".json"] = jx.Obj{"type": "object", "description": b.lbl("wd"), "properties": jx.Obj{"w": jx.Obj{"type": "string"}, "again": jx.Obj{"$ref": "#"}, "other": jx.Obj{"$ref": "a.json#/definitions/WD" + k}}}
		b.AuxDef("sub/a.json", "WD"+k, b.Obj())
		b.useRef("sub/whole"+k+".json", holder)
	case "paramRefToNonParam":
		b.Def("NP"+k, b.Obj())
		op := b.Op(b.newPath(), "put", true)
		op["parameters"] = jx.Arr{jx.Obj{"$ref": Pick(b.rng, []string{"#/definitions/NP" + k, "#/parameters/nope" + k, "#/info", "nofile.json#/parameters/x"})}}
	case "responseRefToNonResponse":
		b.Def("NR"+k, b.Obj())
		op := b.Op(b.newPath(), "get", true)
		jx.AsObj(op["responses"])["200"] = jx.Obj{"$ref": Pick(b.rng, []string{"#/definitions/NR" + k, "#/responses/nope" + k, "#/paths", "nofile.json#/responses/x"})}
	case "ptrToNonSchema":
		b.section(b.Root, "parameters")["pp"+k] = jx.Obj{"name": "q", "in": "query", "type": "string"}
		b.section(b.Root, "responses")["rr"+k] = jx.Obj{"description": "r"}
		p := "/pns" + k
		b.Op(p, "get", true)
		// some ordinary material: a pointer to the whole document also reaches its definitions section
		b.Def("pns"+k, jx.Obj{"type": "object", "description": b.lbl("pn"), "properties": jx.Obj{"owner": b.Obj()}})
		b.Def("pns"+k+"Owner", b.Obj())
		b.useRef("#/definitions/pns"+k, "schema")
		targets := []string{"##", "#/paths/~1pns" + k + "/get/responses/204", "#/info", "#/paths/~1pns" + k + "/get", "#/parameters/pp" + k, "#/responses/rr" + k,
			"#/paths/~1pns" + k, "#/swagger", "#/info/title", "#", "#/", "#/paths/~1pns" + k + "/get/responses"}
		if b.Variant >= 0 {
			// the systematic corpus goes through the first ones deterministically: a pointer to the whole document,
			// a pointer to a response object (both were crash sites), ...
			// one hostile target per case, so that an early error on another one cannot hide it
			t := targets[b.Variant%len(targets)]
			b.Place(Pick(b.rng, []string{"pathParam", "opParam", "definition"}), b.Hold(Pick(b.rng, []string{"allOf", "property", "items"}), jx.Obj{"$ref": t}, 3, ""), "")
			b.section(b.Root, "responses")["viaShared"+k] = jx.Obj{"description": b.lbl("vs"), "schema": jx.Obj{"type": "array", "items": jx.Obj{"$ref": t}}}
			op2 := b.Op(b.newPath(), "options", true)
			jx.AsObj(op2["responses"])["200"] = jx.Obj{"$ref": "#/responses/viaShared" + k}
			break
		}
		b.useRef(Pick(b.rng, targets), holder)
	case "refWithSiblings":
		r := b.Target("localDef", "")
		op := b.Op(b.newPath(), "get", true)
		jx.AsObj(op["responses"])["200"] = jx.Obj{"description": b.lbl("s"), "schema": jx.Obj{"$ref": r, "description": "sibling " + k, "properties": jx.Obj{"extra": jx.Obj{"type": "string"}}}}
		// a remote $ref next to keywords which themselves hold a remote $ref: rewriting the outer one makes the inner key vanish
		b.AuxDef("sub/a.json", "sib"+k, b.Prim())
		rr := "sub/a.json#/definitions/sib" + k
		b.Def("arrSib"+k, jx.Obj{"$ref": rr, "type": "array", "description": b.lbl("as"), "items": jx.Obj{"$ref": rr}})
		b.Def("mapSib"+k, jx.Obj{"$ref": rr, "type": "object", "additionalProperties": jx.Obj{"$ref": rr}, "properties": jx.Obj{"p": jx.Obj{"$ref": rr}}})
		b.useRef("#/definitions/arrSib"+k, "schema")
		b.useRef("#/definitions/mapSib"+k, "schema")
	case "absoluteSelfRef":
		b.Def("Abs"+k, b.Obj())
		b.useRef("/vbundle/root.json#/definitions/Abs"+k, holder)
	case "itemsRef":
		b.Def("It"+k, jx.Obj{"type": "string"})
		op := b.Op(b.newPath(), "get", true)
		op["parameters"] = jx.Arr{jx.Obj{"name": "q", "in": "query", "type": "array", "items": jx.Obj{"$ref": "#/definitions/It" + k}}}
		jx.AsObj(op["responses"])["200"] = jx.Obj{"description": b.lbl("h"), "headers": jx.Obj{"X-H": jx.Obj{"type": "array", "items": jx.Obj{"$ref": "#/definitions/It" + k}}}}
	case "deepNesting":
		t := Pick(b.rng, BundleTargets)
		leaf := b.InlineLeaf(t)
		if leaf == nil {
			leaf = jx.Obj{"$ref": b.Target(t, "")}
		}
		b.Place(Pick(b.rng, BundleContainers), b.Hold(Pick(b.rng, BundleHolders[1:]), leaf, 6+b.rng.IntN(4), ""), "")
	case "pathItemRefDangling":
		jx.AsObj(b.Root["paths"])[b.newPath()] = jx.Obj{"$ref": Pick(b.rng, []string{"#/x-nowhere/item", "nofile.json#/x/y", "#/definitions"})}
	case "sharedRefToRemote", "sharedRefToMissing":
		// shared objects of the root that are themselves $refs to another document; nothing (or something) uses them
		f := "sub/a.json"
		if kind == "sharedRefToMissing" {
			f = "missing/shared" + k + ".json"
		} else {
			b.section(b.aux(f), "responses")["failure"+k] = jx.Obj{"description": b.lbl("fail"), "schema": b.Obj()}
			b.section(b.aux(f), "parameters")["limit"+k] = jx.Obj{"name": "limit", "in": "query", "type": "integer", "description": b.lbl("lim")}
		}
		v := b.Variant
		if v < 0 {
			v = b.rng.IntN(3)
		}
		switch v % 3 {
		case 0:
			b.section(b.Root, "responses")["failure"+k] = jx.Obj{"$ref": f + "#/responses/failure" + k}
		case 1:
			b.section(b.Root, "parameters")["limit"+k] = jx.Obj{"$ref": f + "#/parameters/limit" + k}
		default:
			b.section(b.Root, "responses")["failure"+k] = jx.Obj{"$ref": f + "#/responses/failure" + k}
			op := b.Op(b.newPath(), "get", true)
			jx.AsObj(op["responses"])["500"] = jx.Obj{"$ref": "#/responses/failure" + k}
		}
	case "wholeDocPointerNested":
		// the shape on which a pointer to the whole document once made Flatten double the definitions at every pass:
		// reached through nested allOf in a path-level body parameter, next to a generated-name collision
		b.Def("pet"+k, jx.Obj{"type": "object", "properties": jx.Obj{"owner": jx.Obj{"type": "object", "properties": jx.Obj{"id": jx.Obj{"type": "integer"}}}}})
		b.Def("pet"+k+"Owner", jx.Obj{"type": "object", "properties": jx.Obj{"id": jx.Obj{"type": "integer"}}})
		b.Def("Pet"+k+"owner", jx.Obj{"type": "object", "properties": jx.Obj{"id": jx.Obj{"type": "integer"}}})
		p := b.newPath()
		b.Op(p, "put", false)
		wd := Pick(b.rng, []string{"##", "##", "#/"})
		jx.AsObj(jx.AsObj(b.Root["paths"])[p])["parameters"] = jx.Arr{jx.Obj{"name": "body", "in": "body",
			"schema": jx.Obj{"allOf": jx.Arr{jx.Obj{"allOf": jx.Arr{jx.Obj{"allOf": jx.Arr{jx.Obj{"$ref": wd}}}}}}}}}
	case "httpRemote":
		// documents hosted over http (served from memory): relative, server-absolute and parent-relative
		// references between them, a document named by its host only, one without file extension
		base := "http://schemas" + k + ".test"
		main := base + "/models/h.json"
		b.AuxDef(main, "HA"+k, jx.Obj{"type": "object", "description": b.lbl("ha"), "properties": jx.Obj{
			"rel":   jx.Obj{"$ref": "other.json#/definitions/HB" + k},
			"local": jx.Obj{"$ref": "#/definitions/HC" + k},
			"up":    jx.Obj{"$ref": "../up.json#/definitions/HE" + k},
			"self":  jx.Obj{"type": "array", "items": jx.Obj{"$ref": "#/definitions/HA" + k}},
		}})
		b.AuxDef(main, "HC"+k, b.Obj())
		// a server-absolute reference inside an http document (Flatten treats it as a local file path)
		b.AuxDef(main, "HX"+k, jx.Obj{"type": "object", "description": b.lbl("hx"), "properties": jx.Obj{"abs": jx.Obj{"$ref": "/abs/x.json#/definitions/HD" + k}}})
		b.AuxDef(base+"/models/other.json", "HB"+k, jx.Obj{"type": "object", "description": b.lbl("hb"), "properties": jx.Obj{"back": jx.Obj{"$ref": "h.json#/definitions/HC" + k}}})
		b.AuxDef(base+"/abs/x.json", "HD"+k, b.Obj())
		b.AuxDef(base+"/up.json", "HE"+k, b.Obj())
		b.Aux[base+"/"] = jx.Obj{"type": "object", "description": b.lbl("host-only"), "properties": jx.Obj{"again": jx.Obj{"$ref": "#"}, "m": jx.Obj{"$ref": "models/h.json#/definitions/HC" + k}}}
		b.Aux[base+"/noext"] = jx.Obj{"type": "object", "description": b.lbl("noext"), "properties": jx.Obj{"w": jx.Obj{"type": "string"}}}
		refs := []string{main + "#/definitions/HA" + k, base + "/", base + "/noext", base + "/models/other.json#/definitions/HB" + k}
		if b.Variant >= 0 {
			b.useRef(refs[b.Variant%len(refs)], holder)
			if b.Variant%len(refs) == 3 {
				b.useRef(main+"#/definitions/HX"+k, holder)
			}
		} else {
			if Chance(b.rng, 25) {
				b.useRef(main+"#/definitions/HX"+k, holder)
			}
			for _, r := range refs[:1+b.rng.IntN(len(refs))] {
				b.useRef(r, holder)
			}
		}
	case "selfRefDefinition":
		b.Def("Me"+k, jx.Obj{"$ref": "#/definitions/Me" + k})
		b.useRef("#/definitions/Me"+k, holder)
	case "ptrToSelf":
		b.Def("PS"+k, jx.Obj{"type": "object", "description": b.lbl("ps"), "properties": jx.Obj{"me": jx.Obj{"$ref": "#/definitions/PS" + k + "/properties/me"}}})
		b.useRef("#/definitions/PS"+k, "schema")
	default:
		panic("unknown plus kind " + kind)
	}
	if len(b.Aux) > 0 {
		b.Tag("multi-doc")
	}
}

// AllOptSets lists every option set (W+ bundles are run under all of them).
func AllOptSets(single bool) []string {
	out := []string{"min", "min+ru", "full", "full+ru", "expand", "expand+ru"}
	if single {
		out = append(out, "min+keep", "full+keep", "full+ru+keep")
	}
	return out
}

// RndPlusBundle composes W and W+ features.
func RndPlusBundle(rng *rand.Rand) *Bundle {
	b := RndBundle(rng, 6)
	n := 1 + rng.IntN(4)
	for i := 0; i < n; i++ {
		b.Plus(Pick(rng, PlusKinds))
	}
	return b
}

// ---- structure-aware mutation of rendered bundles ----

type ptrLoc struct {
	file string
	toks []string
}

func allPointers(file string, v any, at []string, out *[]ptrLoc) {
	*out = append(*out, ptrLoc{file, append([]string{}, at...)})
	switch t := v.(type) {
	case jx.Obj:
		for _, k := range jx.Keys(t) {
			allPointers(file, t[k], append(at, k), out)
		}
	case jx.Arr:
		for i, x := range t {
			allPointers(file, x, append(at, strconv.Itoa(i)), out)
		}
	}
}

func setAt(doc any, toks []string, val any, del bool) any {
	if len(toks) == 0 {
		return val
	}
	switch t := doc.(type) {
	case jx.Obj:
		if len(toks) == 1 && del {
			delete(t, toks[0])
			return t
		}
		t[toks[0]] = setAt(t[toks[0]], toks[1:], val, del)
		return t
	case jx.Arr:
		i, err := strconv.Atoi(toks[0])
		if err != nil || i < 0 || i >= len(t) {
			return doc
		}
		if len(toks) == 1 && del {
			return append(append(jx.Arr{}, t[:i]...), t[i+1:]...)
		}
		t[i] = setAt(t[i], toks[1:], val, del)
		return t
	}
	return doc
}

var MutationOps = []string{"retarget", "deleteTarget", "swapType", "truncateFile", "nonObjectFile", "dropKey", "refToScalar", "duplicateIntoRef"}

// Mutate applies one structure-aware mutation to the rendered files (map path -> JSON text) and returns its name.
func Mutate(rng *rand.Rand, files map[string]string, root string) string {
	var names []string
	for f := range files {
		names = append(names, f)
	}
	sort.Strings(names)
	docs := map[string]any{}
	var ptrs, refs []ptrLoc
	for _, f := range names {
		v, err := jx.Parse([]byte(files[f]))
		if err != nil {
			continue
		}
		docs[f] = v
		var ps []ptrLoc
		allPointers(f, v, nil, &ps)
		ptrs = append(ptrs, ps...)
		for _, p := range ps {
			if len(p.toks) > 0 && p.toks[len(p.toks)-1] == "$ref" {
				refs = append(refs, p)
			}
		}
	}
	op := Pick(rng, MutationOps)
	write := func(f string) { files[f] = string(jx.Canon(docs[f])) }
	relTo := func(from, to string) string {
		if from == to {
			return ""
		}
		return relRef(strings.TrimPrefix(from, "./"), to)
	}
	switch op {
	case "retarget":
		if len(refs) == 0 {
			return "none"
		}
		r, t := Pick(rng, refs), Pick(rng, ptrs)
		docs[r.file] = setAt(docs[r.file], r.toks, relTo(r.file, t.file)+"#"+jx.Ptr(t.toks), false)
		write(r.file)
	case "deleteTarget":
		if len(refs) == 0 {
			return "none"
		}
		r := Pick(rng, refs)
		v, _ := jx.Get(docs[r.file], r.toks)
		_, toks, err := jx.SplitRef(jx.AsStr(v))
		if err != nil || len(toks) == 0 {
			return "none"
		}
		for _, f := range names {
			if _, ok := jx.Get(docs[f], toks); ok && docs[f] != nil {
				docs[f] = setAt(docs[f], toks, nil, true)
				write(f)
				break
			}
		}
	case "swapType":
		t := Pick(rng, ptrs)
		if len(t.toks) == 0 {
			return "none"
		}
		v, _ := jx.Get(docs[t.file], t.toks)
		var nv any
		switch x := v.(type) {
		case jx.Obj:
			nv = jx.Arr{x}
		case jx.Arr:
			nv = jx.Obj{"was": "array"}
		case string:
			nv = jx.Obj{"was": x}
		default:
			nv = "scalar"
		}
		docs[t.file] = setAt(docs[t.file], t.toks, nv, false)
		write(t.file)
	case "truncateFile", "nonObjectFile":
		var aux []string
		for _, f := range names {
			if f != root {
				aux = append(aux, f)
			}
		}
		if len(aux) == 0 {
			return "none"
		}
		f := Pick(rng, aux)
		if op == "truncateFile" {
			if len(files[f]) > 0 {
				files[f] = files[f][:rng.IntN(len(files[f]))]
			}
		} else {
			files[f] = Pick(rng, []string{"[1,2]", "\"text\"", "null", "42", "{}", ""})
		}
	case "dropKey":
		t := Pick(rng, ptrs)
		if len(t.toks) == 0 {
			return "none"
		}
		docs[t.file] = setAt(docs[t.file], t.toks, nil, true)
		write(t.file)
	case "refToScalar":
		if len(refs) == 0 {
			return "none"
		}
		r := Pick(rng, refs)
		docs[r.file] = setAt(docs[r.file], r.toks, Pick(rng, []any{"", "#", "##", "#/", "not a ref", "http://[::1", "#/definitions/%zz", "#/definitions/a%2Fb", float64(3), nil, jx.Obj{}}), false)
		write(r.file)
	case "duplicateIntoRef":
		// put a $ref next to existing keywords somewhere
		t := Pick(rng, ptrs)
		if o, ok := func() (jx.Obj, bool) { v, _ := jx.Get(docs[t.file], t.toks); o, ok := v.(jx.Obj); return o, ok }(); ok && len(refs) > 0 {
			r := Pick(rng, refs)
			v, _ := jx.Get(docs[r.file], r.toks)
			// (an earlier mutation may have put a non-string under "$ref", possibly an ancestor of o: copy, never alias)
			o["$ref"] = jx.Clone(v)
			write(t.file)
		}
	}
	return op
}
