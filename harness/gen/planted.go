package gen

import (
	"fmt"
	"strconv"
	"strings"

	"verif/harness/jx"
)

// Schema-bearing keywords as holders ("items[]" = tuple member).
var HolderKw = []string{"properties", "patternProperties", "definitions", "items", "items[]", "additionalProperties", "additionalItems", "additionalItems-alone", "additionalItems-single-items", "additionalItems-next-to-additionalProperties", "allOf", "anyOf", "oneOf", "not"}

var Containers = []string{"definition", "sharedParam", "sharedResponse", "opParam", "pathParam", "defaultResponse", "codeResponse"}

// EscTwin returns, for a name that needs JSON-pointer escaping, the literal name that looks like its escaped form
// ("a/b" -> "a~1b"): two siblings named like that are told apart only by a correct, complete escaping. ok is false
// when the name needs no escaping.
func EscTwin(name string) (twin string, ok bool) {
	if !strings.ContainsAny(name, "/~") {
		return "", false
	}
	return strings.ReplaceAll(strings.ReplaceAll(name, "~", "~0"), "/", "~1"), true
}

func withTwin(m jx.Obj, key string) jx.Obj {
	if tw, ok := EscTwin(key); ok {
		m[tw] = jx.Clone(m[key])
	}
	return m
}

// Wrap nests leaf under depth levels of the holder keyword kw. key names the map entry for keyed holders.
func Wrap(kw string, depth int, leaf jx.Obj, key string) jx.Obj {
	cur := leaf
	for i := 0; i < depth; i++ {
		d := "lvl" + strconv.Itoa(depth-i)
		switch kw {
		case "properties":
			cur = jx.Obj{"type": "object", "description": d, "properties": withTwin(jx.Obj{key: cur, "other": jx.Obj{"type": "string"}}, key)}
		case "patternProperties":
			cur = jx.Obj{"type": "object", "description": d, "patternProperties": jx.Obj{key: cur, "^sib-" + d: jx.Obj{"type": "object", "description": "sibling of " + d, "properties": jx.Obj{"s": jx.Obj{"type": "integer"}}}}}
		case "definitions":
			// with siblings: several entries in one map
			cur = jx.Obj{"type": "object", "description": d, "definitions": jx.Obj{key: cur,
				"sibA " + d: jx.Obj{"type": "object", "description": "sibling A of " + d, "properties": jx.Obj{"s": jx.Obj{"type": "integer"}}},
				"sibB/" + d: jx.Obj{"type": "array", "description": "sibling B of " + d, "items": jx.Obj{"type": "string", "pattern": "^b" + d}}}}
		case "items":
			cur = jx.Obj{"type": "array", "description": d, "items": cur}
		case "items[]":
			cur = jx.Obj{"type": "array", "description": d, "items": jx.Arr{jx.Obj{"type": "string"}, cur}}
		case "additionalProperties":
			cur = jx.Obj{"type": "object", "description": d, "additionalProperties": cur}
		case "additionalItems":
			cur = jx.Obj{"type": "array", "description": d, "items": jx.Arr{jx.Obj{"type": "string"}}, "additionalItems": cur}
		case "additionalItems-next-to-additionalProperties":
			// one schema object carrying both keywords (legal when no type, or several, are given)
			cur = jx.Obj{"description": d, "additionalProperties": jx.Obj{"type": "object", "description": "ap of " + d, "properties": jx.Obj{"a": jx.Obj{"type": "string"}}}, "additionalItems": cur}
		case "additionalItems-single-items":
			cur = jx.Obj{"type": "array", "description": d, "items": jx.Obj{"type": "string"}, "additionalItems": cur}
		case "additionalItems-alone":
			// the keyword on its own, without "items"
			cur = jx.Obj{"description": d, "additionalItems": cur}
		case "allOf", "anyOf", "oneOf":
			cur = jx.Obj{"description": d, kw: jx.Arr{jx.Obj{"type": "object", "properties": jx.Obj{"z": jx.Obj{"type": "string"}}}, cur}}
		case "not":
			cur = jx.Obj{"description": d, "not": cur}
		}
	}
	if RefSiblings && depth > 0 {
		cur["$ref"] = "#/definitions/target1"
	}
	return cur
}

// SkeletonDoc returns a minimal document with one operation on path, and the places where things get planted.
func SkeletonDoc(path, method string) jx.Obj {
	return jx.Obj{"swagger": "2.0", "info": jx.Obj{"title": "t", "version": "1"},
		"paths": jx.Obj{path: jx.Obj{method: jx.Obj{"operationId": "theOp", "responses": jx.Obj{"200": jx.Obj{"description": "ok"}}}}}}
}

// InContainer puts schema s as the root schema of the given container kind.
func InContainer(doc jx.Obj, container, path, method, name string, s jx.Obj) {
	pi := jx.AsObj(jx.AsObj(doc["paths"])[path])
	op := jx.AsObj(pi[method])
	switch container {
	case "definition":
		ds := jx.AsObj(doc["definitions"])
		if ds == nil {
			ds = jx.Obj{}
			doc["definitions"] = ds
		}
		ds[name] = s
		withTwin(ds, name)
	case "sharedParam":
		ps := jx.AsObj(doc["parameters"])
		if ps == nil {
			ps = jx.Obj{}
			doc["parameters"] = ps
		}
		ps[name] = jx.Obj{"name": "body", "in": "body", "schema": s}
		withTwin(ps, name)
	case "sharedResponse":
		rs := jx.AsObj(doc["responses"])
		if rs == nil {
			rs = jx.Obj{}
			doc["responses"] = rs
		}
		rs[name] = jx.Obj{"description": "shared", "schema": s}
		withTwin(rs, name)
	case "opParam":
		op["parameters"] = append(jx.AsArr(op["parameters"]), jx.Obj{"name": "body", "in": "body", "schema": s})
	case "pathParam":
		pi["parameters"] = append(jx.AsArr(pi["parameters"]), jx.Obj{"name": "body", "in": "body", "schema": s})
	case "defaultResponse":
		jx.AsObj(op["responses"])["default"] = jx.Obj{"description": "dflt", "schema": s}
	case "codeResponse":
		jx.AsObj(op["responses"])["201"] = jx.Obj{"description": "created", "schema": s}
	default:
		panic("unknown container " + container)
	}
}

// SimpleItems nests leaf under depth levels of simple-schema items.
func SimpleItems(depth int, leaf jx.Obj) jx.Obj {
	cur := leaf
	for i := 1; i < depth; i++ {
		cur = jx.Obj{"type": "array", "items": cur}
		if r, ok := leaf["$ref"].(string); ok {
			// a $ref at every level of the chain (the same one at two depths counts twice)
			cur["$ref"] = r
		} else if p, ok := leaf["pattern"].(string); ok && i%2 == 1 {
			cur["pattern"] = p + "-outer" + strconv.Itoa(i)
		} else if _, ok := leaf["enum"]; ok && i%2 == 1 {
			cur["enum"] = jx.Arr{jx.Arr{"outer" + strconv.Itoa(i)}}
		}
	}
	return cur
}

// PlantedLocations enumerates the systematic locations for a leaf of kind "ref", "pattern" or "enum".
// Each location is a function building the document around the leaf values.
type Planted struct {
	Name string
	Doc  jx.Obj
}

func leafSchema(kind string, n int) jx.Obj {
	switch kind {
	case "ref":
		return jx.Obj{"$ref": "#/definitions/target" + strconv.Itoa(n%3)}
	case "pattern":
		return jx.Obj{"type": "string", "pattern": "^planted" + strconv.Itoa(n) + "$"}
	}
	switch n % 5 {
	case 1: // zero values are values
		return jx.Obj{"type": "integer", "enum": jx.Arr{float64(0)}}
	case 2:
		return jx.Obj{"type": "string", "enum": jx.Arr{""}}
	case 3:
		return jx.Obj{"enum": jx.Arr{nil, false}}
	}
	return jx.Obj{"type": "string", "enum": jx.Arr{"planted" + strconv.Itoa(n), "other"}}
}

func leafSimple(kind string, n int) jx.Obj {
	switch kind {
	case "ref":
		return jx.Obj{"$ref": "#/definitions/target" + strconv.Itoa(n%3)}
	case "pattern":
		return jx.Obj{"type": "string", "pattern": "^simple" + strconv.Itoa(n) + "$"}
	}
	switch n % 5 {
	case 1:
		return jx.Obj{"type": "integer", "enum": jx.Arr{float64(0)}}
	case 2:
		return jx.Obj{"type": "string", "enum": jx.Arr{""}}
	case 3:
		return jx.Obj{"type": "boolean", "enum": jx.Arr{false}}
	}
	return jx.Obj{"type": "string", "enum": jx.Arr{"simple" + strconv.Itoa(n)}}
}

// hdrName varies the header name: '~' is a legal character of an HTTP token, '/' is not but loads all the same;
// both need escaping in a JSON pointer.
func hdrName(n int) string {
	return []string{"X-Planted", "X~Planted", "X-Pl/anted", "X~1Planted"}[n%4]
}

// PlantedCount is the number of systematic locations per leaf kind.
func PlantedCount() int { return len(plantedSpecs()) }

type plantedSpec struct {
	name string
	mk   func(kind string, n int, path, method, key string) jx.Obj
}

func plantedSpecs() []plantedSpec {
	var out []plantedSpec
	for _, cont := range Containers {
		cont := cont
		out = append(out, plantedSpec{"schema/" + cont + "/root", func(kind string, n int, path, method, key string) jx.Obj {
			d := SkeletonDoc(path, method)
			InContainer(d, cont, path, method, key, leafSchema(kind, n))
			return d
		}})
		for _, kw := range HolderKw {
			for depth := 1; depth <= 3; depth++ {
				kw, depth := kw, depth
				out = append(out, plantedSpec{fmt.Sprintf("schema/%s/%s/depth%d", cont, kw, depth), func(kind string, n int, path, method, key string) jx.Obj {
					d := SkeletonDoc(path, method)
					InContainer(d, cont, path, method, "holder", Wrap(kw, depth, leafSchema(kind, n), key))
					return d
				}})
			}
		}
	}
	for _, lvl := range []string{"shared", "path", "op"} {
		lvl := lvl
		put := func(d jx.Obj, path, method, key string, p jx.Obj) {
			pi := jx.AsObj(jx.AsObj(d["paths"])[path])
			switch lvl {
			case "shared":
				d["parameters"] = jx.Obj{key: p}
			case "path":
				pi["parameters"] = jx.Arr{jx.Obj{"name": "first", "in": "query", "type": "integer"}, p}
			case "op":
				op := jx.AsObj(pi[method])
				op["parameters"] = jx.Arr{jx.Obj{"name": "first", "in": "query", "type": "integer"}, p}
			}
		}
		out = append(out, plantedSpec{"param/" + lvl + "/self", func(kind string, n int, path, method, key string) jx.Obj {
			d := SkeletonDoc(path, method)
			var p jx.Obj
			switch kind {
			case "ref":
				if lvl == "shared" {
					p = jx.Obj{"name": "q", "in": "query", "type": "string"} // a shared parameter that is itself a $ref is outside C11
				} else {
					p = jx.Obj{"$ref": "#/parameters/sharedOne"}
					d["parameters"] = jx.Obj{"sharedOne": jx.Obj{"name": "q", "in": "query", "type": "string"}}
				}
			case "pattern":
				p = jx.Obj{"name": "q", "in": "query", "type": "string", "pattern": "^param" + strconv.Itoa(n)}
			default:
				p = jx.Obj{"name": "q", "in": "query", "type": "string", "enum": jx.Arr{"param" + strconv.Itoa(n)}}
			}
			put(d, path, method, key, p)
			return d
		}})
		for depth := 1; depth <= 3; depth++ {
			depth := depth
			out = append(out, plantedSpec{fmt.Sprintf("param/%s/items/depth%d", lvl, depth), func(kind string, n int, path, method, key string) jx.Obj {
				d := SkeletonDoc(path, method)
				put(d, path, method, key, jx.Obj{"name": "q", "in": "query", "type": "array", "items": SimpleItems(depth, leafSimple(kind, n))})
				return d
			}})
		}
		// a body parameter that (oddly, but loadably) carries simple-schema keywords of its own next to its schema
		out = append(out, plantedSpec{"param/" + lvl + "/body-with-own-keywords", func(kind string, n int, path, method, key string) jx.Obj {
			d := SkeletonDoc(path, method)
			p := jx.Obj{"name": "b", "in": "body", "schema": jx.Obj{"type": "object", "properties": jx.Obj{"v": leafSchema(kind, n)}}}
			switch kind {
			case "pattern":
				p["pattern"] = "^body" + strconv.Itoa(n)
				p["items"] = jx.Obj{"type": "string", "pattern": "^bodyitem" + strconv.Itoa(n)}
			case "enum":
				p["enum"] = jx.Arr{"body" + strconv.Itoa(n)}
				p["items"] = jx.Obj{"type": "string", "enum": jx.Arr{"bodyitem" + strconv.Itoa(n)}}
			default:
				p["items"] = jx.Obj{"$ref": "#/definitions/target1"}
			}
			put(d, path, method, key, p)
			return d
		}})
	}
	for _, rk := range []string{"shared", "default", "code"} {
		rk := rk
		put := func(d jx.Obj, path, method, key string, r jx.Obj) {
			op := jx.AsObj(jx.AsObj(jx.AsObj(d["paths"])[path])[method])
			switch rk {
			case "shared":
				d["responses"] = jx.Obj{key: r}
			case "default":
				jx.AsObj(op["responses"])["default"] = r
			case "code":
				jx.AsObj(op["responses"])["404"] = r
			}
		}
		out = append(out, plantedSpec{"response/" + rk + "/self-or-header", func(kind string, n int, path, method, key string) jx.Obj {
			d := SkeletonDoc(path, method)
			switch kind {
			case "ref":
				if rk == "shared" {
					put(d, path, method, key, jx.Obj{"description": "plain"})
				} else {
					d["responses"] = jx.Obj{"sharedOne": jx.Obj{"description": "shared"}}
					put(d, path, method, key, jx.Obj{"$ref": "#/responses/sharedOne"})
				}
			case "pattern":
				put(d, path, method, key, jx.Obj{"description": "r", "headers": jx.Obj{hdrName(n): jx.Obj{"type": "string", "pattern": "^hdr" + strconv.Itoa(n)},
					"X-Both": jx.Obj{"type": "string", "pattern": "^both" + strconv.Itoa(n), "enum": jx.Arr{"both" + strconv.Itoa(n)}}}})
			default:
				put(d, path, method, key, jx.Obj{"description": "r", "headers": jx.Obj{hdrName(n): jx.Obj{"type": "string", "enum": jx.Arr{"hdr" + strconv.Itoa(n)}}}})
			}
			return d
		}})
		for depth := 1; depth <= 3; depth++ {
			depth := depth
			out = append(out, plantedSpec{fmt.Sprintf("response/%s/header-items/depth%d", rk, depth), func(kind string, n int, path, method, key string) jx.Obj {
				d := SkeletonDoc(path, method)
				put(d, path, method, key, jx.Obj{"description": "r", "headers": jx.Obj{hdrName(n): jx.Obj{"type": "array", "items": SimpleItems(depth, leafSimple(kind, n))}}})
				return d
			}})
		}
	}
	out = append(out, plantedSpec{"pathitem/self", func(kind string, n int, path, method, key string) jx.Obj {
		d := SkeletonDoc(path, method)
		pi := jx.AsObj(jx.AsObj(d["paths"])[path])
		switch kind {
		case "ref":
			pi["$ref"] = "#/x-shared-paths/item" + strconv.Itoa(n%3)
		case "pattern":
			pi["parameters"] = jx.Arr{jx.Obj{"name": "q", "in": "header", "type": "string", "pattern": "^pi" + strconv.Itoa(n)}}
		default:
			pi["parameters"] = jx.Arr{jx.Obj{"name": "q", "in": "header", "type": "string", "enum": jx.Arr{"pi" + strconv.Itoa(n)}}}
		}
		return d
	}})
	return out
}

// PlantedDoc builds the i-th systematic location with the given leaf kind, path template, method and key name.
func PlantedDoc(i int, kind, path, method, key string) Planted {
	sp := plantedSpecs()[i]
	return Planted{Name: sp.name + "/" + kind, Doc: sp.mk(kind, i, path, method, key)}
}

// RefSiblings, when set, makes Wrap put a "$ref" next to the outermost holder keyword: the schemas, $refs, patterns and
// enums below are then siblings of a $ref (ignored by a resolver, but still part of the document).
var RefSiblings bool

// PlantedDocRefSiblings is PlantedDoc with the planted structure hanging next to a $ref.
func PlantedDocRefSiblings(i int, kind, path, method, key string) Planted {
	RefSiblings = true
	defer func() { RefSiblings = false }()
	p := PlantedDoc(i, kind, path, method, key)
	p.Name += "/ref-siblings"
	return p
}
