package gen

import (
	"math/rand/v2"
	"strconv"

	"verif/harness/jx"
)

// SchemaCfg steers the schema grammar.
type SchemaCfg struct {
	Hostile  bool     // property names over the hostile alphabet
	Extended bool     // anyOf / oneOf / not / patternProperties / schema-level definitions
	Refs     []string // $ref strings that may be planted ("" entries are skipped)
	RefPct   int      // chance of a $ref at a leaf position
	PatEnum  bool     // plant patterns and enums
	Counter  *int     // distinct labels
}

func (c *SchemaCfg) next() int {
	if c.Counter == nil {
		c.Counter = new(int)
	}
	*c.Counter++
	return *c.Counter
}

var primTypes = []string{"string", "integer", "number", "boolean"}
var formats = map[string][]string{"string": {"date", "date-time", "uuid", "byte", "email"}, "integer": {"int32", "int64"}, "number": {"float", "double"}}

// Prim draws a primitive schema.
func Prim(rng *rand.Rand, c *SchemaCfg) jx.Obj {
	t := Pick(rng, primTypes)
	s := jx.Obj{"type": t}
	if fs := formats[t]; len(fs) > 0 && Chance(rng, 30) {
		s["format"] = Pick(rng, fs)
	}
	if c.PatEnum {
		if t == "string" && Chance(rng, 35) {
			s["pattern"] = "^p" + strconv.Itoa(c.next()) + "[a-z]+$"
		}
		if Chance(rng, 25) {
			switch t {
			case "string":
				s["enum"] = jx.Arr{"e" + strconv.Itoa(c.next()), "f"}
			case "integer", "number":
				s["enum"] = jx.Arr{float64(c.next()), float64(2)}
			}
		}
	}
	return s
}

// Schema draws a schema of the full grammar with nesting at most depth.
func Schema(rng *rand.Rand, c *SchemaCfg, depth int) jx.Obj {
	if len(c.Refs) > 0 && Chance(rng, c.RefPct) {
		if r := Pick(rng, c.Refs); r != "" {
			return jx.Obj{"$ref": r}
		}
	}
	if depth <= 0 {
		return Prim(rng, c)
	}
	sub := func() jx.Obj { return Schema(rng, c, depth-1) }
	kinds := []string{"prim", "object", "object", "array", "tuple", "allOf", "map"}
	if c.Extended {
		kinds = append(kinds, "anyOf", "oneOf", "not", "patternProperties", "definitions")
	}
	switch Pick(rng, kinds) {
	case "object":
		s := jx.Obj{"type": "object", "description": "obj" + strconv.Itoa(c.next())}
		props := jx.Obj{}
		n := 1 + rng.IntN(3)
		var req jx.Arr
		for i := 0; i < n; i++ {
			nm := AnyName(rng, c.Hostile, i)
			props[nm] = sub()
			if Chance(rng, 30) {
				req = append(req, nm)
			}
		}
		s["properties"] = props
		if len(req) > 0 {
			s["required"] = req
		}
		switch rng.IntN(5) {
		case 0:
			s["additionalProperties"] = sub()
		case 1:
			s["additionalProperties"] = true
		}
		if Chance(rng, 10) {
			delete(s, "type")
		}
		return s
	case "map":
		s := jx.Obj{"type": "object", "description": "map" + strconv.Itoa(c.next())}
		if Chance(rng, 80) {
			s["additionalProperties"] = sub()
		} else {
			s["additionalProperties"] = true
		}
		return s
	case "array":
		return jx.Obj{"type": "array", "description": "arr" + strconv.Itoa(c.next()), "items": sub()}
	case "tuple":
		s := jx.Obj{"type": "array", "description": "tup" + strconv.Itoa(c.next())}
		n := 1 + rng.IntN(3)
		var its jx.Arr
		for i := 0; i < n; i++ {
			its = append(its, sub())
		}
		s["items"] = its
		switch rng.IntN(5) {
		case 0:
			s["additionalItems"] = sub()
		case 1:
			s["additionalItems"] = true
		case 2:
			if c.Extended { // the keyword on its own
				delete(s, "items")
				s["additionalItems"] = sub()
			}
		}
		return s
	case "allOf", "anyOf", "oneOf":
		kw := "allOf"
		k := rng.IntN(3)
		if c.Extended && k == 1 {
			kw = "anyOf"
		} else if c.Extended && k == 2 {
			kw = "oneOf"
		}
		n := 1 + rng.IntN(3)
		var ms jx.Arr
		for i := 0; i < n; i++ {
			ms = append(ms, sub())
		}
		return jx.Obj{kw: ms, "description": kw + strconv.Itoa(c.next())}
	case "not":
		return jx.Obj{"not": sub(), "description": "not" + strconv.Itoa(c.next())}
	case "patternProperties":
		return jx.Obj{"type": "object", "description": "pp" + strconv.Itoa(c.next()),
			"patternProperties": jx.Obj{"^" + AnyName(rng, c.Hostile, 0): sub(), "^x-" + strconv.Itoa(c.next()): sub()}}
	case "definitions":
		return jx.Obj{"type": "object", "description": "sd" + strconv.Itoa(c.next()),
			"definitions": func() jx.Obj {
				// one to three entries (several entries of one map are where a shared loop variable shows)
				ds := jx.Obj{AnyName(rng, c.Hostile, 0): sub()}
				for i := rng.IntN(3); i > 0; i-- {
					ds[AnyName(rng, c.Hostile, i)+"_"+strconv.Itoa(c.next())] = sub()
				}
				return ds
			}(), "properties": jx.Obj{"p": sub()}}
	}
	return Prim(rng, c)
}
